mod world;
mod exact;
mod numeric;
mod probe2;
mod probe3;
mod probe4;
mod probe5;
mod probe6;
mod probe7;
mod probe8;
mod probe9;
mod probe10;
mod probe11;
mod probe12;
mod probe13;
use cosmwasm_std::{coin, Coin, Decimal, Uint128};
use cw_multi_test::Executor;
use mantra_dex_std::farm_manager as fm;
use mantra_dex_std::fee::{Fee, PoolFee};
use mantra_dex_std::pool_manager as pm;
use world::*;

fn fees(p: u64, s: u64, b: u64) -> PoolFee {
    PoolFee {
        protocol_fee: Fee { share: Decimal::permille(p) },
        swap_fee: Fee { share: Decimal::permille(s) },
        burn_fee: Fee { share: Decimal::permille(b) },
        extra_fees: vec![],
    }
}

fn balances() -> Vec<Coin> {
    vec![
        coin(10u128.pow(30), "uom"),
        coin(10u128.pow(30), "uusd"),
        coin(10u128.pow(30), "uusdc"),
        coin(10u128.pow(36), "ausdy"),
        coin(10u128.pow(30), "uweth"),
    ]
}

fn mk_world() -> World {
    World::new(3, balances(), vec![coin(8888, "uom")], coin(1000, "uom"), coin(1000, "uusd"))
}

fn create_pool(w: &mut World, denoms: &[&str], decs: &[u8], f: PoolFee, t: pm::PoolType, id: &str) -> anyhow::Result<cw_multi_test::AppResponse> {
    let u0 = w.users[0].clone();
    w.app.execute_contract(
        u0,
        w.pool_manager.clone(),
        &pm::ExecuteMsg::CreatePool {
            asset_denoms: denoms.iter().map(|s| s.to_string()).collect(),
            asset_decimals: decs.to_vec(),
            pool_fees: f,
            pool_type: t,
            pool_identifier: Some(id.to_string()),
        },
        &[coin(8888, "uom"), coin(1000, "uusd")],
    )
}

fn provide(w: &mut World, who: usize, id: &str, funds: &[Coin], lock: Option<u64>, slip: Option<Decimal>) -> anyhow::Result<cw_multi_test::AppResponse> {
    let u = w.users[who].clone();
    let mut f = funds.to_vec();
    f.sort_by(|a, b| a.denom.cmp(&b.denom));
    w.app.execute_contract(
        u,
        w.pool_manager.clone(),
        &pm::ExecuteMsg::ProvideLiquidity {
            liquidity_max_slippage: slip,
            swap_max_slippage: None,
            receiver: None,
            pool_identifier: id.to_string(),
            unlocking_duration: lock,
            lock_position_identifier: None,
        },
        &f,
    )
}

fn swap(w: &mut World, who: usize, id: &str, offer: Coin, ask: &str, max_slip: Option<Decimal>) -> anyhow::Result<cw_multi_test::AppResponse> {
    let u = w.users[who].clone();
    w.app.execute_contract(
        u,
        w.pool_manager.clone(),
        &pm::ExecuteMsg::Swap { ask_asset_denom: ask.to_string(), belief_price: None, max_slippage: max_slip, receiver: None, pool_identifier: id.to_string() },
        &[offer],
    )
}

fn claim(w: &mut World, who: usize, until: Option<u64>) -> anyhow::Result<cw_multi_test::AppResponse> {
    let u = w.users[who].clone();
    w.app.execute_contract(u, w.farm_manager.clone(), &fm::ExecuteMsg::Claim { until_epoch: until }, &[])
}

fn probe_c06() {
    println!("== C06 probe: claim with earlier until_epoch after opening");
    let mut w = mk_world();
    create_pool(&mut w, &["uom", "uusd"], &[6, 6], fees(0, 0, 0), pm::PoolType::ConstantProduct, "a").unwrap();
    // user0 and user1 provide liquidity unlocked to get LP
    provide(&mut w, 0, "o.a", &[coin(10_000_000, "uom"), coin(10_000_000, "uusd")], None, None).unwrap();
    provide(&mut w, 1, "o.a", &[coin(10_000_000, "uom"), coin(10_000_000, "uusd")], None, None).unwrap();
    let lp = w.lp("o.a");
    println!("lp balances {} {}", w.balance(&w.users[0], &lp), w.balance(&w.users[1], &lp));
    // user0 opens a position in epoch 0
    let u0 = w.users[0].clone();
    let u1 = w.users[1].clone();
    w.app
        .execute_contract(u0.clone(), w.farm_manager.clone(), &fm::ExecuteMsg::ManagePosition { action: fm::PositionAction::Create { identifier: None, unlocking_duration: 86400, receiver: None } }, &[coin(1_000_000, &lp)])
        .unwrap();
    // farm: 8000 uusdc over epochs [1,5)
    w.app
        .execute_contract(
            u0.clone(),
            w.farm_manager.clone(),
            &fm::ExecuteMsg::ManageFarm {
                action: fm::FarmAction::Create {
                    params: fm::FarmParams { lp_denom: lp.clone(), start_epoch: Some(1), preliminary_end_epoch: Some(9), curve: None, farm_asset: coin(8000, "uusdc"), farm_identifier: None },
                },
            },
            &[coin(1000, "uom"), coin(8000, "uusdc")],
        )
        .unwrap();
    w.advance(86400 * 3); // epoch 3
    // user1 opens a same-size position in epoch 3 (effective epoch 4)
    w.app
        .execute_contract(u1.clone(), w.farm_manager.clone(), &fm::ExecuteMsg::ManagePosition { action: fm::PositionAction::Create { identifier: None, unlocking_duration: 86400, receiver: None } }, &[coin(1_000_000, &lp)])
        .unwrap();
    let before = w.balance(&u1, "uusdc");
    let r = claim(&mut w, 1, Some(1));
    println!("user1 claim until=1: {:?}", r.as_ref().map(|_| ()).map_err(|e| e.root_cause().to_string()));
    w.advance(86400); // epoch 4
    let r = claim(&mut w, 1, None);
    println!("user1 claim at epoch4: {:?}", r.as_ref().map(|_| ()).map_err(|e| e.root_cause().to_string()));
    println!("user1 got {} (rightful: 500 = half of epoch 4)", w.balance(&u1, "uusdc") - before);
    let before0 = w.balance(&u0, "uusdc");
    let r = claim(&mut w, 0, None);
    println!("user0 claim at epoch4: {:?} got {} (rightful 3500)", r.as_ref().map(|_| ()).map_err(|e| e.root_cause().to_string()), w.balance(&u0, "uusdc") - before0);
    let farms: fm::FarmsResponse = w.app.wrap().query_wasm_smart(w.farm_manager.clone(), &fm::QueryMsg::Farms { filter_by: None, start_after: None, limit: None }).unwrap();
    println!("farm claimed {} of {}", farms.farms[0].claimed_amount, farms.farms[0].farm_asset.amount);
}

fn probe_c11() {
    println!("== C11 probe: zero farm fee in another denom");
    let mut w = World::new(3, balances(), vec![coin(8888, "uom")], coin(0, "uom"), coin(1000, "uusd"));
    create_pool(&mut w, &["uom", "uusd"], &[6, 6], fees(0, 0, 0), pm::PoolType::ConstantProduct, "a").unwrap();
    let lp = w.lp("o.a");
    let u0 = w.users[0].clone();
    let mk = |id: &str| fm::ExecuteMsg::ManageFarm {
        action: fm::FarmAction::Create {
            params: fm::FarmParams { lp_denom: lp.clone(), start_epoch: Some(1), preliminary_end_epoch: Some(9), curve: None, farm_asset: coin(8000, "uusdc"), farm_identifier: Some(id.to_string()) },
        },
    };
    let r = w.app.execute_contract(u0.clone(), w.farm_manager.clone(), &mk("x"), &[coin(8000, "uusdc")]);
    println!("exact reward only: {:?}", r.map(|_| ()).map_err(|e| e.root_cause().to_string()));
    let fb = w.balance(&w.farm_manager.clone(), "uweth");
    let r = w.app.execute_contract(u0.clone(), w.farm_manager.clone(), &mk("y"), &[coin(8000, "uusdc"), coin(777, "uweth")]);
    println!("reward + unrelated coin: {:?}; farm manager uweth delta {}", r.map(|_| ()).map_err(|e| e.root_cause().to_string()), w.balance(&w.farm_manager.clone(), "uweth") - fb);
}

fn probe_c13() {
    println!("== C13 probe: stableswap slippage with mixed decimals");
    let mut w = mk_world();
    create_pool(&mut w, &["uusdc", "ausdy"], &[6, 18], fees(0, 0, 0), pm::PoolType::StableSwap { amp: 100 }, "s").unwrap();
    provide(&mut w, 0, "o.s", &[coin(1_000_000 * 10u128.pow(6), "uusdc"), coin(1_000_000 * 10u128.pow(18), "ausdy")], None, None).unwrap();
    // sell 1000 ausdy (0.1% of pool): tiny price impact
    let r = swap(&mut w, 1, "o.s", coin(1000 * 10u128.pow(18), "ausdy"), "uusdc", None);
    println!("sell 1000 ausdy (18d) default slippage: {:?}", r.map(|_| ()).map_err(|e| e.root_cause().to_string()));
    let r = swap(&mut w, 1, "o.s", coin(1000 * 10u128.pow(18), "ausdy"), "uusdc", Some(Decimal::percent(50)));
    println!("sell 1000 ausdy (18d) 50% slippage: {:?}", r.map(|_| ()).map_err(|e| e.root_cause().to_string()));
    // sell huge uusdc -> big price impact should be rejected by 1%
    let sim: pm::SimulationResponse = w.app.wrap().query_wasm_smart(w.pool_manager.clone(), &pm::QueryMsg::Simulation { offer_asset: coin(900_000 * 10u128.pow(6), "uusdc"), ask_asset_denom: "ausdy".into(), pool_identifier: "o.s".into() }).unwrap();
    println!("sim sell 900k uusdc: {:?}", sim);
    let r = swap(&mut w, 1, "o.s", coin(900_000 * 10u128.pow(6), "uusdc"), "ausdy", None);
    println!("sell 900k uusdc (6d) default slippage: {:?}", r.map(|_| ()).map_err(|e| e.root_cause().to_string()));
    // deposit tolerance on stableswap
    let mut w = mk_world();
    create_pool(&mut w, &["uusdc", "uusd"], &[6, 6], fees(0, 0, 0), pm::PoolType::StableSwap { amp: 100 }, "t").unwrap();
    provide(&mut w, 0, "o.t", &[coin(1_000_000, "uusdc"), coin(1_000_000, "uusd")], None, None).unwrap();
    for tol in [0u64, 1, 50, 100] {
        let r = provide(&mut w, 1, "o.t", &[coin(1000, "uusdc"), coin(1000, "uusd")], None, Some(Decimal::percent(tol)));
        println!("stableswap balanced deposit tol {}%: {:?}", tol, r.map(|_| ()).map_err(|e| e.root_cause().to_string()));
    }
}

fn probe_speed_and_snapshot() {
    println!("== snapshot/restore + speed probe");
    let mut w = mk_world();
    create_pool(&mut w, &["uom", "uusd"], &[6, 6], fees(1, 2, 1), pm::PoolType::ConstantProduct, "a").unwrap();
    provide(&mut w, 0, "o.a", &[coin(10_000_000, "uom"), coin(10_000_000, "uusd")], None, None).unwrap();
    let snap = w.snapshot();
    println!("storage entries: {}", snap.storage.data.len());
    let t = std::time::Instant::now();
    let n = 20000;
    for i in 0..n {
        swap(&mut w, 1, "o.a", coin(1000 + i, "uom"), "uusd", Some(Decimal::percent(50))).unwrap();
    }
    println!("{} swaps in {:?}", n, t.elapsed());
    let after = w.snapshot();
    let t = std::time::Instant::now();
    for _ in 0..2000 {
        w.restore(&snap);
    }
    println!("2000 restores in {:?}", t.elapsed());
    // determinism: replay from snapshot gives identical storage
    for i in 0..n {
        swap(&mut w, 1, "o.a", coin(1000 + i, "uom"), "uusd", Some(Decimal::percent(50))).unwrap();
    }
    println!("replay identical: {}", w.snapshot().storage == after.storage);
    let t = std::time::Instant::now();
    let mut cnt = 0u64;
    for i in 0..200000u128 {
        let s: pm::SimulationResponse = w.app.wrap().query_wasm_smart(w.pool_manager.clone(), &pm::QueryMsg::Simulation { offer_asset: coin(1000 + i, "uom"), ask_asset_denom: "uusd".into(), pool_identifier: "o.a".into() }).unwrap();
        cnt += s.return_amount.u128() as u64 & 1;
    }
    println!("200k sim queries in {:?} ({cnt})", t.elapsed());
}

fn probe_faults() {
    println!("== fault enumeration probe: single-asset locked deposit");
    let mut w = mk_world();
    create_pool(&mut w, &["uom", "uusd"], &[6, 6], fees(1, 2, 1), pm::PoolType::ConstantProduct, "a").unwrap();
    provide(&mut w, 0, "o.a", &[coin(10_000_000, "uom"), coin(10_000_000, "uusd")], None, None).unwrap();
    let snap = w.snapshot();
    w.plan.reset(0);
    let r = provide(&mut w, 1, "o.a", &[coin(100_001, "uom")], Some(86400), None);
    let n = w.plan.counter.get();
    println!("ok={:?} env calls={}", r.is_ok(), n);
    for l in w.plan.log.borrow().iter() {
        println!("   {}", &l[..l.len().min(150)]);
    }
    for k in 1..=n {
        w.restore(&snap);
        w.plan.reset(k);
        let r = provide(&mut w, 1, "o.a", &[coin(100_001, "uom")], Some(86400), None);
        w.plan.reset(0);
        let same = w.snapshot().storage == snap.storage;
        println!("fail_at={k}: err={} state_unchanged={}", r.is_err(), same);
    }
    // close farm tolerated failure
    println!("== fault enumeration probe: close farm");
    w.restore(&snap);
    let lp = w.lp("o.a");
    let u0 = w.users[0].clone();
    w.app
        .execute_contract(
            u0.clone(),
            w.farm_manager.clone(),
            &fm::ExecuteMsg::ManageFarm {
                action: fm::FarmAction::Create {
                    params: fm::FarmParams { lp_denom: lp.clone(), start_epoch: Some(1), preliminary_end_epoch: Some(9), curve: None, farm_asset: coin(8000, "uusdc"), farm_identifier: Some("x".into()) },
                },
            },
            &[coin(1000, "uom"), coin(8000, "uusdc")],
        )
        .unwrap();
    let snap2 = w.snapshot();
    w.plan.reset(0);
    w.app.execute_contract(u0.clone(), w.farm_manager.clone(), &fm::ExecuteMsg::ManageFarm { action: fm::FarmAction::Close { farm_identifier: "m-x".into() } }, &[]).unwrap();
    let n = w.plan.counter.get();
    println!("close farm env calls={n}");
    for k in 1..=n {
        w.restore(&snap2);
        w.plan.reset(k);
        let r = w.app.execute_contract(u0.clone(), w.farm_manager.clone(), &fm::ExecuteMsg::ManageFarm { action: fm::FarmAction::Close { farm_identifier: "m-x".into() } }, &[]);
        w.plan.reset(0);
        let farms: fm::FarmsResponse = w.app.wrap().query_wasm_smart(w.farm_manager.clone(), &fm::QueryMsg::Farms { filter_by: None, start_after: None, limit: None }).unwrap();
        println!("fail_at={k}: err={} farms_left={} fm_uusdc={}", r.is_err(), farms.farms.len(), w.balance(&w.farm_manager.clone(), "uusdc"));
    }
}

fn main() {
    let which: Vec<String> = std::env::args().skip(1).collect();
    let all = which.is_empty();
    let has = |s: &str| all || which.iter().any(|w| w == s);
    if has("c06") { probe_c06(); }
    if has("c11") { probe_c11(); }
    if has("c13") { probe_c13(); }
    if has("speed") { probe_speed_and_snapshot(); }
    if has("faults") { probe_faults(); }
    if has("numeric") { numeric::run(); }
    if has("weights") { probe2::weights(); }
    if has("rev") { probe2::reverse_sim(); }
    if has("mint") { probe3::run(); }
    if which.iter().any(|w| w == "pbfs") { let d: usize = which.iter().filter_map(|x| x.parse().ok()).next().unwrap_or(2); probe5::run(d, which.iter().any(|w| w == "zerofee")); }
    if which.iter().any(|w| w == "c13cp") { probe6::c13_cp(); }
    if which.iter().any(|w| w == "c18") { probe6::c18(); }
    if which.iter().any(|w| w == "c16") { probe6::c16(); }
    if which.iter().any(|w| w == "c09") { probe6::c09(); }
    if which.iter().any(|w| w == "fbfs") { let d: usize = which.iter().filter_map(|x| x.parse().ok()).next().unwrap_or(3); probe7::run(d); }
    if which.iter().any(|w| w == "c17") { probe8::c17(); }
    if which.iter().any(|w| w == "c14") { probe8::c14(); }
    if which.iter().any(|w| w == "c20") { probe8::c20(); }
    if which.iter().any(|w| w == "c15") { probe9::run(); }
    if which.iter().any(|w| w == "c08") { let d: usize = which.iter().filter_map(|x| x.parse().ok()).next().unwrap_or(3); probe10::run(d); }
    if which.iter().any(|w| w == "c13ss") { probe11::c13_ss(); }
    if which.iter().any(|w| w == "dbg") { probe11::dbg(); }
    if which.iter().any(|w| w == "c10curve") { probe11::c10_curve(); }
    if which.iter().any(|w| w == "cpgrid") { probe12::run(); }
    if which.iter().any(|w| w == "f2bfs") { let d: usize = which.iter().filter_map(|x| x.parse().ok()).next().unwrap_or(3); probe13::run(d); }
    if which.iter().any(|w| w == "partest") { probe4::partest(); }
    if which.iter().any(|w| w == "bfs") { let d: usize = which.iter().filter_map(|x| x.parse().ok()).next().unwrap_or(3); probe4::run(d); }
    let _ = Uint128::zero();
}
