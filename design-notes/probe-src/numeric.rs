use crate::exact::*;
use cosmwasm_std::{coin, Coin, Decimal, Uint128};
use mantra_dex_std::fee::{Fee, PoolFee};
use mantra_dex_std::pool_manager::{PoolInfo, PoolStatus, PoolType};
use num_bigint::BigInt;
use pool_manager::helpers::{compute_d_with_pool_info, compute_swap};

fn pool(amp: u64, decs: &[u8], res: &[u128]) -> PoolInfo {
    let denoms: Vec<String> = (0..decs.len()).map(|i| format!("d{i}")).collect();
    PoolInfo {
        pool_identifier: "p".into(),
        asset_denoms: denoms.clone(),
        lp_denom: "factory/x/p.LP".into(),
        asset_decimals: decs.to_vec(),
        assets: denoms.iter().zip(res).map(|(d, a)| coin(*a, d)).collect(),
        pool_type: PoolType::StableSwap { amp },
        pool_fees: PoolFee { protocol_fee: Fee { share: Decimal::zero() }, swap_fee: Fee { share: Decimal::zero() }, burn_fee: Fee { share: Decimal::zero() }, extra_fees: vec![] },
        status: PoolStatus::default(),
    }
}

pub fn run() {
    const K: u32 = 6;
    let kk = BigInt::from(10u32).pow(K);
    let amps = [1u64, 10, 100, 5000, 1_000_000];
    let dec_sets: Vec<Vec<u8>> = vec![vec![6, 6], vec![6, 18], vec![18, 6], vec![8, 6], vec![6, 12, 18], vec![6, 6, 6, 6]];
    // whole-token magnitudes expressed as (mantissa, exp10 relative to units): value in tokens = m * 10^e
    let mags: [(u128, i32); 7] = [(2, -3), (5, -1), (3, 0), (100, 0), (1, 6), (1, 9), (1, 12)];
    let skews = [1u128, 3, 1000];
    let mut worst_d: (BigInt, String) = (BigInt::from(0), String::new());
    let mut worst_out: (BigInt, String) = (BigInt::from(0), String::new());
    let mut n_d = 0u64; let mut n_sw = 0u64; let mut n_err = 0u64; let mut n_c03 = 0u64; let mut n_over = 0u64;
    let mut hist_d = std::collections::BTreeMap::<i64, u64>::new();
    let mut hist_out = std::collections::BTreeMap::<i64, u64>::new();
    let mut panics = 0u64; let mut errk = std::collections::BTreeMap::<String,u64>::new(); let mut exceed: Vec<String> = vec![];
    for amp in amps {
        for decs in &dec_sets {
            let n = decs.len();
            let maxd = *decs.iter().max().unwrap() as u32;
            for (m, e) in mags {
                for skew in skews {
                    // reserves: asset0 = base*skew, others = base
                    let mut res = vec![];
                    let mut ok = true;
                    for (i, d) in decs.iter().enumerate() {
                        let ex = *d as i32 + e;
                        if ex < 0 { ok = false; break; }
                        let base = m * 10u128.pow(ex as u32);
                        res.push(if i == 0 { base * skew } else { base });
                    }
                    if !ok { continue; }
                    let p = pool(amp, decs, &res);
                    let ann = BigInt::from(amp) * BigInt::from(n as u64);
                    let xs: Vec<BigInt> = res.iter().zip(decs).map(|(r, d)| scale(*r, *d as u32, maxd, K)).collect();
                    let d_exact_k = exact_d_floor(&xs, &ann); // in 10^-K max-precision units
                    // D used for LP mint
                    let dres = std::panic::catch_unwind(|| compute_d_with_pool_info(&amp, &p.assets, &p));
                    match dres {
                        Ok(Some(dc)) => {
                            n_d += 1;
                            let dc = BigInt::parse_bytes(dc.to_string().as_bytes(), 10).unwrap() * &kk;
                            let diff = &dc - &d_exact_k; // in 10^-K units
                            let units: BigInt = &diff / &kk;
                            let u = i64::try_from(units.clone()).unwrap_or(i64::MAX);
                            *hist_d.entry(u.clamp(-1000, 1000)).or_default() += 1;
                            let ad = if diff < BigInt::from(0) { -diff.clone() } else { diff.clone() };
                            if ad > worst_d.0 { worst_d = (ad, format!("amp={amp} decs={decs:?} res={res:?} dc-dexact={} (1e-{K} units)", diff)); }
                        }
                        Ok(None) => {}
                        Err(_) => panics += 1,
                    }
                    // swaps
                    for (oi, ai) in [(0usize, 1usize), (1, 0)] {
                        for (num, den) in [(0u128, 1u128), (1, 100), (1, 2), (3, 1)] {
                            let off = if num == 0 { 1 } else { res[oi] * num / den };
                            if off == 0 { continue; }
                            let offer: Coin = coin(off, format!("d{oi}"));
                            let r = std::panic::catch_unwind(|| compute_swap(&p, &offer, &format!("d{ai}")));
                            n_sw += 1;
                            match r {
                                Err(_) => panics += 1,
                                Ok(Err(e)) => { n_err += 1; *errk.entry(e.to_string().chars().take(60).collect::<String>()).or_default() += 1; },
                                Ok(Ok(sc)) => {
                                    let out = sc.return_amount.u128();
                                    if out > res[ai] { n_over += 1; }
                                    // exact: others = all but ask, with offer added
                                    let mut others = vec![];
                                    for i in 0..n { if i != ai { let mut x = xs[i].clone(); if i == oi { x += scale(off, decs[oi] as u32, maxd, K); } others.push(x); } }
                                    let y = exact_y_floor(&others, &d_exact_k, &ann, n as u32);
                                    let exact_out_k = &xs[ai] - &y; // in 10^-K max-prec units
                                    let out_k = scale(out, decs[ai] as u32, maxd, K);
                                    let diff = &out_k - &exact_out_k; // positive => trader got more than exact
                                    let unit_ask_k = scale(1, decs[ai] as u32, maxd, K);
                                    let du: BigInt = &diff / &unit_ask_k; // in ask units
                                    let u = i64::try_from(du.clone()).unwrap_or(if diff > BigInt::from(0) { i64::MAX } else { i64::MIN });
                                    *hist_out.entry(u.clamp(-1000, 1000)).or_default() += 1;
                                    let ad = if du < BigInt::from(0) { -du.clone() } else { du.clone() };
                                    // C19 tolerance: 2 ask units + value of 2 offer units (in 10^-K max-prec units)
                                    let tol = &unit_ask_k * 2 + scale(2, decs[oi] as u32, maxd, K);
                                    let adiff = if diff < BigInt::from(0) { -diff.clone() } else { diff.clone() };
                                    if adiff > tol {
                                        let sum_tokens: f64 = res.iter().zip(decs.iter()).map(|(r,d)| *r as f64 / 10f64.powi(*d as i32)).sum();
                                        let sign = if diff > BigInt::from(0) { "TRADER+" } else { "pool+" };
                                        exceed.push(format!("{sign} amp={amp} decs={decs:?} res={res:?} sumTok={sum_tokens:.4} offer={off} d{oi}->d{ai} out={out} diff_ask_units={du}"));
                                    }
                                    if ad > worst_out.0 { worst_out = (ad, format!("amp={amp} decs={decs:?} res={res:?} offer={off} d{oi}->d{ai} out={out} out-exact={} ask units", du)); }
                                    // C03: exact D after >= before
                                    let mut xs2 = xs.clone();
                                    xs2[oi] += scale(off, decs[oi] as u32, maxd, K);
                                    xs2[ai] -= &out_k;
                                    if xs2[ai] > BigInt::from(0) {
                                        let d2 = exact_d_floor(&xs2, &ann);
                                        if d2 < d_exact_k { n_c03 += 1; if n_c03 <= 0 { println!("C03 VIOL amp={amp} decs={decs:?} res={res:?} offer={off} d{oi}->d{ai} out={out} D {} -> {}", d_exact_k, d2); } }
                                    }
                                }
                            }
                        }
                    }
                }
            }
        }
    }
    println!("D evals={n_d} swaps={n_sw} swap_errs={n_err} panics={panics} out>reserve={n_over} c03_viol={n_c03}");
    let tp = exceed.iter().filter(|e| e.starts_with("TRADER+")).count();
    println!("C19 tolerance exceedances: {} (trader-favouring {})", exceed.len(), tp);
    for e in exceed.iter().filter(|e| e.starts_with("TRADER+")).take(40) { println!("  {e}"); }
    for e in exceed.iter().filter(|e| e.starts_with("pool+")).take(40) { println!("  {e}"); }
    println!("error kinds: {:?}", errk);
    println!("worst D: {:?}", worst_d);
    println!("worst out: {:?}", worst_out);
    println!("hist D diff (units at max precision, clamped): {:?}", hist_d);
    println!("hist out diff (ask units, clamped): {:?}", hist_out);
    let _ = Uint128::zero();
}
