//! C08 positions custody/timing BFS with a positions model
use crate::world::*;
use cosmwasm_std::{coin, Addr, Decimal, Timestamp};
use cw_multi_test::Executor;
use mantra_dex_std::farm_manager as fm;
use mantra_dex_std::pool_manager as pm;
use rayon::prelude::*;
use std::cell::RefCell;
use std::collections::{BTreeMap, HashSet};
use std::hash::{Hash, Hasher};

#[derive(Clone, Debug, PartialEq, Eq, Hash)]
pub enum Op {
    Create { u: usize, id: Option<String>, recv: Option<usize>, amount: u128 },
    Expand { u: usize, id: String },
    Close { u: usize, id: String, partial: Option<u128> },
    Withdraw { u: usize, id: String, emergency: bool },
    LockViaPool { u: usize, id: Option<String>, recv: Option<usize> },
    Jump { id: String, off: i64 },
    Advance,
}
#[derive(Clone)]
pub struct Node { pub snap: Snapshot, pub hist: Vec<Op> }
thread_local! { static WORLD: RefCell<Option<World>> = RefCell::new(None); }

fn seed() -> (World, String) {
    let mut w = World::new(3, vec![coin(10u128.pow(30), "uom"), coin(10u128.pow(30), "uusd"), coin(10u128.pow(30), "uusdc")], vec![coin(8888, "uom")], coin(1000, "uom"), coin(1000, "uusd"));
    let u0 = w.users[0].clone();
    let zf = mantra_dex_std::fee::Fee { share: Decimal::zero() };
    w.app.execute_contract(u0.clone(), w.pool_manager.clone(), &pm::ExecuteMsg::CreatePool { asset_denoms: vec!["uom".into(), "uusd".into()], asset_decimals: vec![6, 6], pool_fees: mantra_dex_std::fee::PoolFee { protocol_fee: zf.clone(), swap_fee: zf.clone(), burn_fee: zf.clone(), extra_fees: vec![] }, pool_type: pm::PoolType::ConstantProduct, pool_identifier: Some("a".into()) }, &[coin(8888, "uom"), coin(1000, "uusd")]).unwrap();
    for i in 0..3 { let u = w.users[i].clone(); w.app.execute_contract(u, w.pool_manager.clone(), &pm::ExecuteMsg::ProvideLiquidity { liquidity_max_slippage: None, swap_max_slippage: None, receiver: None, pool_identifier: "o.a".into(), unlocking_duration: None, lock_position_identifier: None }, &[coin(10_000_000, "uom"), coin(10_000_000, "uusd")]).unwrap(); }
    let lp = w.lp("o.a");
    (w, lp)
}
fn all_positions(w: &World) -> Vec<fm::Position> {
    let mut v = vec![];
    for u in &w.users { let r: fm::PositionsResponse = w.app.wrap().query_wasm_smart(w.farm_manager.clone(), &fm::QueryMsg::Positions { filter_by: Some(fm::PositionsBy::Receiver(u.to_string())), open_state: None, start_after: None, limit: Some(10) }).unwrap(); v.extend(r.positions); }
    v.sort_by(|a, b| a.identifier.cmp(&b.identifier));
    v
}
fn enabled(w: &World) -> Vec<Op> {
    let mut ops = vec![Op::Advance];
    let ps = all_positions(w);
    for u in 1..3usize {
        ops.push(Op::Create { u, id: None, recv: None, amount: 1000 });
        ops.push(Op::Create { u, id: Some("x".into()), recv: None, amount: 5 });
        ops.push(Op::Create { u, id: None, recv: Some(3 - u), amount: 7 }); // for the other user: must be refused
        ops.push(Op::LockViaPool { u, id: None, recv: None });
        ops.push(Op::LockViaPool { u, id: Some("u-x".into()), recv: None });
        ops.push(Op::LockViaPool { u, id: None, recv: Some(3 - u) }); // lock for someone else: must be refused
        for p in ps.iter().take(4) {
            ops.push(Op::Expand { u, id: p.identifier.clone() });
            ops.push(Op::Close { u, id: p.identifier.clone(), partial: None });
            if p.lp_asset.amount.u128() > 1 { ops.push(Op::Close { u, id: p.identifier.clone(), partial: Some(1) }); }
            ops.push(Op::Withdraw { u, id: p.identifier.clone(), emergency: false });
            ops.push(Op::Withdraw { u, id: p.identifier.clone(), emergency: true });
        }
    }
    if let Some(p) = ps.iter().find(|p| p.expiring_at.is_some()) { for off in [-1i64, 0] { ops.push(Op::Jump { id: p.identifier.clone(), off }); } }
    ops
}
fn apply(w: &mut World, lp: &str, op: &Op) -> anyhow::Result<cw_multi_test::AppResponse> {
    let fmaddr = w.farm_manager.clone();
    let mp = |action| fm::ExecuteMsg::ManagePosition { action };
    match op {
        Op::Advance => { w.advance(86400); Ok(Default::default()) }
        Op::Jump { id, off } => {
            let p = all_positions(w).into_iter().find(|p| &p.identifier == id).unwrap();
            let t = (p.expiring_at.unwrap() as i64 + off) as u64;
            let mut b = w.app.block_info();
            if t <= b.time.seconds() { anyhow::bail!("past") }
            b.time = Timestamp::from_seconds(t); w.app.set_block(b); Ok(Default::default())
        }
        Op::Create { u, id, recv, amount } => w.app.execute_contract(w.users[*u].clone(), fmaddr, &mp(fm::PositionAction::Create { identifier: id.clone(), unlocking_duration: 86400, receiver: recv.map(|r| w.users[r].to_string()) }), &[coin(*amount, lp)]),
        Op::Expand { u, id } => w.app.execute_contract(w.users[*u].clone(), fmaddr, &mp(fm::PositionAction::Expand { identifier: id.clone() }), &[coin(3, lp)]),
        Op::Close { u, id, partial } => w.app.execute_contract(w.users[*u].clone(), fmaddr, &mp(fm::PositionAction::Close { identifier: id.clone(), lp_asset: partial.map(|a| coin(a, lp)) }), &[]),
        Op::Withdraw { u, id, emergency } => w.app.execute_contract(w.users[*u].clone(), fmaddr, &mp(fm::PositionAction::Withdraw { identifier: id.clone(), emergency_unlock: Some(*emergency) }), &[]),
        Op::LockViaPool { u, id, recv } => w.app.execute_contract(w.users[*u].clone(), w.pool_manager.clone(), &pm::ExecuteMsg::ProvideLiquidity { liquidity_max_slippage: None, swap_max_slippage: None, receiver: recv.map(|r| w.users[r].to_string()), pool_identifier: "o.a".into(), unlocking_duration: Some(86400), lock_position_identifier: id.clone() }, &[coin(2000, "uom"), coin(2000, "uusd")]),
    }
}
#[derive(Default, Debug, Clone)]
pub struct Stats { pub transitions: u64, pub viol: BTreeMap<String, (u64, String)>, pub kinds: BTreeMap<String, (u64, u64)> }
fn note(st: &mut Stats, kind: &str, hist: &[Op], op: &Op, detail: String) { let e = st.viol.entry(kind.to_string()).or_insert((0, String::new())); e.0 += 1; if e.1.is_empty() { e.1 = format!("hist={:?} op={:?} :: {}", hist, op, detail); } }

fn step(node: &Node, st: &mut Stats, lp: &str) -> Vec<Node> {
    WORLD.with(|cell| {
        let mut slot = cell.borrow_mut();
        if slot.is_none() { *slot = Some(seed().0); }
        let w = slot.as_mut().unwrap();
        w.restore(&node.snap);
        let ops = enabled(w);
        let pre = all_positions(w);
        let now0 = w.app.block_info().time.seconds();
        let prebal: Vec<u128> = (0..3).map(|i| w.balance(&w.users[i].clone(), lp)).collect();
        let prefm = w.balance(&w.farm_manager.clone(), lp);
        let mut out = vec![];
        for op in ops {
            w.restore(&node.snap);
            st.transitions += 1;
            let r = std::panic::catch_unwind(std::panic::AssertUnwindSafe(|| apply(w, lp, &op)));
            let ok = matches!(r, Ok(Ok(_)));
            let err = match &r { Ok(Err(e)) => e.root_cause().to_string(), Err(_) => "TRAP".into(), _ => String::new() };
            let kind = format!("{:?}", op).split(' ').next().unwrap().to_string();
            let e = st.kinds.entry(kind).or_default(); if ok { e.0 += 1 } else { e.1 += 1 }
            let post = all_positions(w);
            let postbal: Vec<u128> = (0..3).map(|i| w.balance(&w.users[i].clone(), lp)).collect();
            let postfm = w.balance(&w.farm_manager.clone(), lp);
            let find = |v: &Vec<fm::Position>, id: &str| v.iter().find(|p| p.identifier == id).cloned();
            let owner_of = |p: &fm::Position| w.users.iter().position(|u| u == &p.receiver).unwrap();
            if !ok { if post != pre || postbal != prebal { note(st, "rejected_changed", &node.hist, &op, err.clone()); } }
            // other users' positions untouched by ops of user u (except own)
            let actor = match &op { Op::Create { u, .. } | Op::Expand { u, .. } | Op::Close { u, .. } | Op::Withdraw { u, .. } | Op::LockViaPool { u, .. } => Some(*u), _ => None };
            if let Some(u) = actor { for p in &pre { if owner_of(p) != u { if find(&post, &p.identifier).as_ref() != Some(p) { note(st, "C08_foreign_position_changed", &node.hist, &op, format!("{:?}", p)); } } } }
            match &op {
                Op::Create { u, recv, amount, id } => {
                    if ok && recv.is_some() && recv != &Some(*u) { note(st, "C08_create_for_other_by_user", &node.hist, &op, String::new()); }
                    if ok { let newp: Vec<_> = post.iter().filter(|p| find(&pre, &p.identifier).is_none()).collect(); if newp.len() != 1 || newp[0].lp_asset.amount.u128() != *amount || owner_of(newp[0]) != *u || !newp[0].open { note(st, "C08_create_record", &node.hist, &op, format!("{:?}", newp)); } if prebal[*u] - postbal[*u] != *amount || postfm - prefm != *amount { note(st, "C08_create_funds", &node.hist, &op, String::new()); } }
                    if !ok && recv.is_none() { let exists = id.as_ref().map_or(false, |i| find(&pre, &format!("u-{i}")).is_some()); let open_cnt = pre.iter().filter(|p| owner_of(p) == *u && p.open).count(); if !exists && open_cnt < 10 { note(st, "C08_create_refused", &node.hist, &op, err.clone()); } }
                }
                Op::Expand { u, id } => {
                    let p = find(&pre, id).unwrap();
                    let should = owner_of(&p) == *u && p.open;
                    if ok != should { note(st, "C08_expand_auth", &node.hist, &op, err.clone()); }
                    if ok { let q = find(&post, id).unwrap(); if q.lp_asset.amount.u128() != p.lp_asset.amount.u128() + 3 { note(st, "C08_expand_amount", &node.hist, &op, String::new()); } }
                }
                Op::Close { u, id, partial } => {
                    let p = find(&pre, id).unwrap();
                    let closed_cnt = pre.iter().filter(|q| owner_of(q) == *u && !q.open).count();
                    let should = owner_of(&p) == *u && p.open && closed_cnt < 10 && partial.map_or(true, |a| a <= p.lp_asset.amount.u128());
                    if ok != should && !err.contains("pending rewards") { note(st, "C08_close_auth", &node.hist, &op, err.clone()); }
                    if ok {
                        let sum_pre: u128 = pre.iter().map(|q| q.lp_asset.amount.u128()).sum(); let sum_post: u128 = post.iter().map(|q| q.lp_asset.amount.u128()).sum();
                        if sum_pre != sum_post { note(st, "C08_close_conservation", &node.hist, &op, format!("{sum_pre} -> {sum_post}")); }
                        let exp = now0 + p.unlocking_duration;
                        let closedp: Vec<_> = post.iter().filter(|q| !q.open && find(&pre, &q.identifier).map_or(true, |o| o.open)).collect();
                        if closedp.len() != 1 || closedp[0].expiring_at != Some(exp) || owner_of(closedp[0]) != *u { note(st, "C08_close_record", &node.hist, &op, format!("{:?}", closedp)); }
                    }
                }
                Op::Withdraw { u, id, emergency } => {
                    let p = find(&pre, id).unwrap();
                    let unlocked = p.expiring_at.map_or(false, |t| t <= now0);
                    let should = owner_of(&p) == *u && (*emergency || unlocked);
                    if ok != should { note(st, "C08_withdraw_auth_or_time", &node.hist, &op, format!("unlocked={unlocked} {err}")); }
                    if ok {
                        if find(&post, id).is_some() { note(st, "C08_withdraw_not_deleted", &node.hist, &op, String::new()); }
                        let got = postbal[*u] - prebal[*u];
                        if (unlocked || !*emergency) && got != p.lp_asset.amount.u128() { note(st, "C08_withdraw_amount", &node.hist, &op, format!("got {got} of {}", p.lp_asset.amount)); }
                        if got > p.lp_asset.amount.u128() || prefm - postfm != p.lp_asset.amount.u128() { note(st, "C08_withdraw_conservation", &node.hist, &op, String::new()); }
                    }
                }
                Op::LockViaPool { u, id, recv } => {
                    if ok && recv.is_some() { note(st, "C08_pool_locks_for_other", &node.hist, &op, String::new()); }
                    if ok {
                        let grown: Vec<_> = post.iter().filter(|q| find(&pre, &q.identifier).map_or(true, |o| o.lp_asset.amount < q.lp_asset.amount)).collect();
                        if grown.len() != 1 || owner_of(grown[0]) != *u { note(st, "C08_pool_lock_record", &node.hist, &op, format!("{:?}", grown)); }
                    }
                    if !ok && recv.is_none() { let target = id.as_ref().and_then(|i| find(&pre, i)); let blocked = target.as_ref().map_or(false, |t| owner_of(t) != *u || !t.open); let open_cnt = pre.iter().filter(|p| owner_of(p) == *u && p.open).count(); if !blocked && open_cnt < 10 { note(st, "C08_pool_lock_refused", &node.hist, &op, err.clone()); } }
                }
                _ => {}
            }
            if ok {
                let ids: HashSet<&String> = post.iter().map(|p| &p.identifier).collect();
                if ids.len() != post.len() { note(st, "C08_duplicate_ids", &node.hist, &op, String::new()); }
                let need: u128 = post.iter().map(|q| q.lp_asset.amount.u128()).sum();
                if postfm < need { note(st, "C05_custody", &node.hist, &op, format!("fm {postfm} need {need}")); }
                let mut hist = node.hist.clone(); hist.push(op.clone());
                out.push(Node { snap: w.snapshot(), hist });
            }
        }
        out
    })
}
fn key(n: &Node) -> u64 { let mut h = std::collections::hash_map::DefaultHasher::new(); n.snap.storage.data.hash(&mut h); n.snap.block.time.nanos().hash(&mut h); h.finish() }
pub fn run(depth: usize) {
    std::panic::set_hook(Box::new(|_| {}));
    let (w, lp) = seed();
    let init = Node { snap: w.snapshot(), hist: vec![] };
    let mut seen: HashSet<u64> = HashSet::new(); seen.insert(key(&init));
    let mut frontier = vec![init]; let mut total = Stats::default(); let t0 = std::time::Instant::now();
    for d in 1..=depth {
        let results: Vec<(Vec<Node>, Stats)> = frontier.par_iter().map(|n| { let mut st = Stats::default(); let out = step(n, &mut st, &lp); (out, st) }).collect();
        let mut next = vec![];
        for (out, st) in results { total.transitions += st.transitions; for (k, v) in st.kinds { let e = total.kinds.entry(k).or_default(); e.0 += v.0; e.1 += v.1; } for (k, v) in st.viol { let e = total.viol.entry(k).or_insert((0, String::new())); e.0 += v.0; if e.1.is_empty() || v.1.len() < e.1.len() { e.1 = v.1; } } for n in out { if seen.insert(key(&n)) { next.push(n); } } }
        println!("depth {d}: frontier {} -> new {} | transitions {} | {:?}", frontier.len(), next.len(), total.transitions, t0.elapsed());
        frontier = next;
    }
    println!("states {} transitions {} kinds {:?}", seen.len(), total.transitions, total.kinds);
    for (k, v) in &total.viol { println!("  VIOL {k}: count {} e.g. {}", v.0, &v.1[..v.1.len().min(700)]); }
    let _: Option<Addr> = None;
}
