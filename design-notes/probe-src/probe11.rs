//! C13 stableswap decimals-invariance + tolerance monotonicity; C10(b) weight curve grid
use crate::world::*;
use cosmwasm_std::{coin, Decimal};
use cw_multi_test::Executor;
use mantra_dex_std::farm_manager as fm;
use mantra_dex_std::fee::{Fee, PoolFee};
use mantra_dex_std::pool_manager as pm;

fn pf(p: u64, s: u64, b: u64) -> PoolFee { PoolFee { protocol_fee: Fee { share: Decimal::permille(p) }, swap_fee: Fee { share: Decimal::permille(s) }, burn_fee: Fee { share: Decimal::permille(b) }, extra_fees: vec![] } }

pub fn c13_ss() {
    println!("== C13 stableswap: decimals invariance and tolerance monotonicity");
    std::panic::set_hook(Box::new(|_| {}));
    let tols = [Decimal::zero(), Decimal::permille(1), Decimal::percent(1), Decimal::percent(5), Decimal::percent(20), Decimal::percent(50)];
    let mut n = 0u64; let mut inv_bad = 0u64; let mut mono_bad = 0u64; let mut shown = 0;
    for fees in [(0u64, 0u64, 0u64), (1, 3, 1)] {
        for amp in [1u64, 100] {
            for (ra, rb) in [(1_000_000u128, 1_000_000u128), (3_000_000, 1_000_000), (1_000_000, 20_000_000)] {
                // decisions[dec combo][offer idx][dir][tol]
                let mut table: Vec<Vec<bool>> = vec![];
                for (da, db) in [(6u32, 6u32), (6, 18), (18, 6), (18, 18)] {
                    let mut w = World::new(2, vec![coin(10u128.pow(36), "aaa"), coin(10u128.pow(36), "bbb"), coin(10u128.pow(20), "uom"), coin(10u128.pow(20), "uusd")], vec![coin(8888, "uom")], coin(1000, "uom"), coin(1000, "uusd"));
                    let u0 = w.users[0].clone();
                    w.app.execute_contract(u0.clone(), w.pool_manager.clone(), &pm::ExecuteMsg::CreatePool { asset_denoms: vec!["aaa".into(), "bbb".into()], asset_decimals: vec![da as u8, db as u8], pool_fees: pf(fees.0, fees.1, fees.2), pool_type: pm::PoolType::StableSwap { amp }, pool_identifier: Some("s".into()) }, &[coin(8888, "uom"), coin(1000, "uusd")]).unwrap();
                    w.app.execute_contract(u0.clone(), w.pool_manager.clone(), &pm::ExecuteMsg::ProvideLiquidity { liquidity_max_slippage: None, swap_max_slippage: None, receiver: None, pool_identifier: "o.s".into(), unlocking_duration: None, lock_position_identifier: None }, &[coin(ra * 10u128.pow(da), "aaa"), coin(rb * 10u128.pow(db), "bbb")]).unwrap();
                    let snap = w.snapshot();
                    let mut row = vec![];
                    for dir in 0..2 {
                        let (od, odec, ask, res) = if dir == 0 { ("aaa", da, "bbb", ra) } else { ("bbb", db, "aaa", rb) };
                        for frac in [(1u128, 1000u128), (1, 100), (1, 20), (1, 5), (1, 2), (2, 1)] {
                            let off_tokens_milli = res * 1000 * frac.0 / frac.1; // in 1e-3 tokens
                            let off = off_tokens_milli * 10u128.pow(odec) / 1000;
                            let mut prev_accept = false;
                            for (ti, tol) in tols.iter().enumerate() {
                                w.restore(&snap);
                                let u1 = w.users[1].clone(); let pma = w.pool_manager.clone();
                                let r = std::panic::catch_unwind(std::panic::AssertUnwindSafe(|| w.app.execute_contract(u1, pma, &pm::ExecuteMsg::Swap { ask_asset_denom: ask.into(), belief_price: None, max_slippage: Some(*tol), receiver: None, pool_identifier: "o.s".into() }, &[coin(off, od)])));
                                let acc = matches!(r, Ok(Ok(_)));
                                n += 1;
                                if ti > 0 && prev_accept && !acc { mono_bad += 1; if shown < 8 { shown += 1; println!("  NON-MONOTONE decs=({da},{db}) amp={amp} res=({ra},{rb}) dir={dir} off={off} tol={tol}"); } }
                                prev_accept = acc;
                                row.push(acc);
                            }
                        }
                    }
                    println!("   decs=({da},{db}) amp={amp} res=({ra},{rb}) fees={fees:?} accepted {}/{}", row.iter().filter(|x| **x).count(), row.len());
                    table.push(row);
                }
                for i in 1..table.len() { for j in 0..table[0].len() { if table[i][j] != table[0][j] { inv_bad += 1; if shown < 16 { shown += 1; println!("  DECIMALS-VARIANT fees={fees:?} amp={amp} res=({ra},{rb}) combo#{i} case#{j}: (6,6)={} this={}", table[0][j], table[i][j]); } } } }
            }
        }
    }
    println!("swaps={n} decimals_variant={inv_bad} non_monotone={mono_bad}");
}

pub fn c10_curve() {
    println!("== C10(b) weight curve grid via Create + LpWeight");
    std::panic::set_hook(Box::new(|_| {}));
    let mut w = World::new(2, vec![coin(10u128.pow(30), "uom"), coin(10u128.pow(30), "uusd")], vec![coin(8888, "uom")], coin(1000, "uom"), coin(1000, "uusd"));
    let u0 = w.users[0].clone(); let u1 = w.users[1].clone();
    w.app.execute_contract(u0.clone(), w.pool_manager.clone(), &pm::ExecuteMsg::CreatePool { asset_denoms: vec!["uom".into(), "uusd".into()], asset_decimals: vec![6, 6], pool_fees: pf(0, 0, 0), pool_type: pm::PoolType::ConstantProduct, pool_identifier: Some("a".into()) }, &[coin(8888, "uom"), coin(1000, "uusd")]).unwrap();
    w.app.execute_contract(u1.clone(), w.pool_manager.clone(), &pm::ExecuteMsg::ProvideLiquidity { liquidity_max_slippage: None, swap_max_slippage: None, receiver: None, pool_identifier: "o.a".into(), unlocking_duration: None, lock_position_identifier: None }, &[coin(10u128.pow(28), "uom"), coin(10u128.pow(28), "uusd")]).unwrap();
    let lp = w.lp("o.a");
    let snap = w.snapshot();
    let mut durs: Vec<u64> = (1..=365u64).map(|d| d * 86400).collect();
    durs.extend([86_399, 86_401, 15_778_463, 31_556_925, 31_556_926, 31_556_927]);
    durs.sort();
    let mut amounts: Vec<u128> = (1..=60).collect();
    for k in [3u32, 6, 9, 12, 18, 24, 27] { amounts.extend([10u128.pow(k) - 1, 10u128.pow(k), 10u128.pow(k) + 1]); }
    amounts.sort();
    let mut n = 0u64; let mut bad = 0u64; let mut refused = 0u64; let mut shown = 0;
    let mut grid: Vec<Vec<Option<u128>>> = vec![];
    for &d in &durs {
        let mut row = vec![];
        for &a in &amounts {
            w.restore(&snap);
            n += 1;
            let (u1c, fmc) = (u1.clone(), w.farm_manager.clone());
            let r = std::panic::catch_unwind(std::panic::AssertUnwindSafe(|| w.app.execute_contract(u1c, fmc, &fm::ExecuteMsg::ManagePosition { action: fm::PositionAction::Create { identifier: None, unlocking_duration: d, receiver: None } }, &[coin(a, &lp)])));
            if !matches!(r, Ok(Ok(_))) { refused += 1; row.push(None); if (86_400..=31_556_926).contains(&d) { bad += 1; if shown < 10 { shown += 1; println!("  valid duration refused d={d} a={a}"); } } continue; }
            if !(86_400..=31_556_926).contains(&d) { bad += 1; println!("  out-of-range duration accepted d={d}"); }
            let wq = w.app.wrap().query_wasm_smart::<fm::LpWeightResponse>(w.farm_manager.clone(), &fm::QueryMsg::LpWeight { address: u1.to_string(), denom: lp.clone(), epoch_id: 1 }).unwrap().lp_weight.u128();
            if wq < a || wq > 16 * a { bad += 1; if shown < 10 { shown += 1; println!("  weight out of [a,16a]: d={d} a={a} w={wq}"); } }
            if d == 86_400 && wq != a { bad += 1; println!("  1-day weight != amount a={a} w={wq}"); }
            row.push(Some(wq));
        }
        grid.push(row);
    }
    for i in 0..durs.len() { for j in 0..amounts.len() {
        if let Some(x) = grid[i][j] {
            if j + 1 < amounts.len() { if let Some(y) = grid[i][j + 1] { if y < x { bad += 1; if shown < 10 { shown += 1; println!("  not monotone in amount d={} a={}..{}: {x} > {y}", durs[i], amounts[j], amounts[j + 1]); } } } }
            if i + 1 < durs.len() { if let Some(y) = grid[i + 1][j] { if y < x { bad += 1; if shown < 10 { shown += 1; println!("  not monotone in duration a={} d={}..{}: {x} > {y}", amounts[j], durs[i], durs[i + 1]); } } } }
        }
    } }
    println!("points={n} refused={refused} bad={bad}");
}

pub fn dbg() {
    for (d0, d1, da, db) in [("aaa", "bbb", 6u32, 18u32), ("uusdc", "ausdy", 6, 18), ("bbb", "aaa", 6, 18)] {
        let mut w = World::new(2, vec![coin(10u128.pow(36), d0), coin(10u128.pow(36), d1), coin(10u128.pow(20), "uom"), coin(10u128.pow(20), "uusd")], vec![coin(8888, "uom")], coin(1000, "uom"), coin(1000, "uusd"));
        let u0 = w.users[0].clone();
        w.app.execute_contract(u0.clone(), w.pool_manager.clone(), &pm::ExecuteMsg::CreatePool { asset_denoms: vec![d0.into(), d1.into()], asset_decimals: vec![da as u8, db as u8], pool_fees: pf(0, 0, 0), pool_type: pm::PoolType::StableSwap { amp: 100 }, pool_identifier: Some("s".into()) }, &[coin(8888, "uom"), coin(1000, "uusd")]).unwrap();
        let mut f = vec![coin(1_000_000 * 10u128.pow(da), d0), coin(1_000_000 * 10u128.pow(db), d1)];
        f.sort_by(|a, b| a.denom.cmp(&b.denom));
        w.app.execute_contract(u0.clone(), w.pool_manager.clone(), &pm::ExecuteMsg::ProvideLiquidity { liquidity_max_slippage: None, swap_max_slippage: None, receiver: None, pool_identifier: "o.s".into(), unlocking_duration: None, lock_position_identifier: None }, &f).unwrap();
        let ps: pm::PoolsResponse = w.app.wrap().query_wasm_smart(w.pool_manager.clone(), &pm::QueryMsg::Pools { pool_identifier: None, start_after: None, limit: None }).unwrap();
        println!("pool assets {:?} decimals {:?}", ps.pools[0].pool_info.assets, ps.pools[0].pool_info.asset_decimals);
        let sim: Result<pm::SimulationResponse, _> = w.app.wrap().query_wasm_smart(w.pool_manager.clone(), &pm::QueryMsg::Simulation { offer_asset: coin(1000 * 10u128.pow(db), d1), ask_asset_denom: d0.into(), pool_identifier: "o.s".into() });
        println!("  sell 1000 {d1}(18d): {:?}", sim);
        let u1 = w.users[1].clone();
        let r = w.app.execute_contract(u1, w.pool_manager.clone(), &pm::ExecuteMsg::Swap { ask_asset_denom: d0.into(), belief_price: None, max_slippage: Some(Decimal::percent(50)), receiver: None, pool_identifier: "o.s".into() }, &[coin(1000 * 10u128.pow(db), d1)]);
        println!("  swap: {:?}", r.map(|_| ()).map_err(|e| e.root_cause().to_string()));
    }
}
