//! small exhaustive constant-product grids: reverse simulation (C12b), k-monotonicity and round trips (C03b)
use cosmwasm_std::{coin, Decimal};
use mantra_dex_std::fee::{Fee, PoolFee};
use mantra_dex_std::pool_manager::{PoolInfo, PoolStatus, PoolType};
use pool_manager::helpers::{compute_offer_amount, compute_swap};

fn pool(x: u128, y: u128, pf: &PoolFee) -> PoolInfo {
    PoolInfo { pool_identifier: "p".into(), asset_denoms: vec!["a".into(), "b".into()], lp_denom: "factory/x/p.LP".into(), asset_decimals: vec![6, 6], assets: vec![coin(x, "a"), coin(y, "b")], pool_type: PoolType::ConstantProduct, pool_fees: pf.clone(), status: PoolStatus::default() }
}

pub fn run() {
    std::panic::set_hook(Box::new(|_| {}));
    let fee_sets = [(0u64, 0u64, 0u64, 0u64), (1, 2, 1, 1), (0, 3, 0, 0), (50, 100, 50, 0), (0, 0, 0, 200)];
    let mut n_rev = 0u64; let mut rev_bad = 0u64; let mut rev_refused = 0u64; let mut shown = 0;
    let mut n_sw = 0u64; let mut k_bad = 0u64; let mut rt_bad = 0u64;
    for (p, s, b, x_) in fee_sets {
        let pf = PoolFee { protocol_fee: Fee { share: Decimal::permille(p) }, swap_fee: Fee { share: Decimal::permille(s) }, burn_fee: Fee { share: Decimal::permille(b) }, extra_fees: if x_ > 0 { vec![Fee { share: Decimal::permille(x_) }] } else { vec![] } };
        for x in 1u128..=48 {
            for y in 1u128..=48 {
                let pl = pool(x, y, &pf);
                for ask in 1..y {
                    n_rev += 1;
                    let r = std::panic::catch_unwind(|| compute_offer_amount(x.into(), y.into(), ask.into(), pf.clone()));
                    let off = match r { Ok(Ok(o)) => o.offer_amount.u128(), _ => { rev_refused += 1; continue; } };
                    match compute_swap(&pl, &coin(off + 1, "a"), "b") {
                        Ok(sc) => if sc.return_amount.u128() < ask { rev_bad += 1; if shown < 10 { shown += 1; println!("  REV SHORT fees=({p},{s},{b},{x_}) x={x} y={y} ask={ask} quoted={off} swap(q+1)={}", sc.return_amount); } },
                        Err(_) => { rev_refused += 1; }
                    }
                }
                for off in 1u128..=60 {
                    n_sw += 1;
                    if let Ok(Ok(sc)) = std::panic::catch_unwind(|| compute_swap(&pl, &coin(off, "a"), "b")) {
                        let out_total = sc.return_amount.u128() + sc.protocol_fee_amount.u128() + sc.burn_fee_amount.u128();
                        if out_total > y { k_bad += 1; continue; }
                        let (x1, y1) = (x + off, y - out_total);
                        if x1 * y1 < x * y { k_bad += 1; if shown < 14 { shown += 1; println!("  K DECREASED fees=({p},{s},{b},{x_}) x={x} y={y} off={off} -> ({x1},{y1})"); } }
                        // round trip: swap proceeds back
                        if sc.return_amount.u128() > 0 && y1 > 0 {
                            let pl2 = pool(x1, y1, &pf);
                            if let Ok(Ok(sc2)) = std::panic::catch_unwind(|| compute_swap(&pl2, &coin(sc.return_amount.u128(), "b"), "a")) {
                                if sc2.return_amount.u128() > off { rt_bad += 1; if shown < 18 { shown += 1; println!("  ROUND TRIP PROFIT x={x} y={y} off={off} back={}", sc2.return_amount); } }
                            }
                        }
                    }
                }
            }
        }
    }
    println!("reverse: cases={n_rev} refused={rev_refused} short={rev_bad} | swaps={n_sw} k_decreased={k_bad} round_trip_profit={rt_bad}");
}
