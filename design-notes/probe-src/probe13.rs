//! two-LP farm universe: claim exactness with a per-(user, lp) ledger, shared claim cursor, farm expand/close
use crate::world::*;
use cosmwasm_std::{coin, Addr, Decimal};
use cw_multi_test::Executor;
use mantra_dex_std::farm_manager as fm;
use mantra_dex_std::pool_manager as pm;
use rayon::prelude::*;
use std::cell::RefCell;
use std::collections::{BTreeMap, HashSet};
use std::hash::{Hash, Hasher};

#[derive(Clone, Debug, PartialEq, Eq, Hash)]
pub enum Op {
    CreatePos { u: usize, lp: usize, amount: u128, dur: u64 },
    ExpandPos { u: usize, id: String },
    ClosePos { u: usize, id: String, partial: Option<u128> },
    WithdrawPos { u: usize, id: String, emergency: bool },
    Claim { u: usize, until: Option<u64> },
    Advance,
    CreateFarm { lp: usize, len: u64 },
    ExpandFarm { id: String },
    CloseFarm { id: String },
}

#[derive(Clone, Default, Debug, PartialEq, Eq, Hash)]
pub struct Ghost {
    pub timeline: BTreeMap<(usize, usize), Vec<(u64, u128)>>,
    pub last_claimed: BTreeMap<usize, u64>,
}
#[derive(Clone)]
pub struct Node { pub snap: Snapshot, pub ghost: Ghost, pub hist: Vec<Op> }
thread_local! { static WORLD: RefCell<Option<World>> = RefCell::new(None); }

fn seed() -> (World, [String; 2]) {
    let mut w = World::new(3, vec![coin(10u128.pow(30), "uom"), coin(10u128.pow(30), "uusd"), coin(10u128.pow(30), "uusdc")], vec![coin(8888, "uom")], coin(1000, "uom"), coin(1000, "uusd"));
    let u0 = w.users[0].clone();
    let zf = mantra_dex_std::fee::Fee { share: Decimal::zero() };
    for (id, d2) in [("a", "uusd"), ("b", "uusdc")] {
        w.app.execute_contract(u0.clone(), w.pool_manager.clone(), &pm::ExecuteMsg::CreatePool { asset_denoms: vec!["uom".into(), d2.into()], asset_decimals: vec![6, 6], pool_fees: mantra_dex_std::fee::PoolFee { protocol_fee: zf.clone(), swap_fee: zf.clone(), burn_fee: zf.clone(), extra_fees: vec![] }, pool_type: pm::PoolType::ConstantProduct, pool_identifier: Some(id.into()) }, &[coin(8888, "uom"), coin(1000, "uusd")]).unwrap();
        for i in 0..3 { let u = w.users[i].clone(); let mut f = vec![coin(10_000_000, "uom"), coin(10_000_000, d2)]; f.sort_by(|a, b| a.denom.cmp(&b.denom)); w.app.execute_contract(u, w.pool_manager.clone(), &pm::ExecuteMsg::ProvideLiquidity { liquidity_max_slippage: None, swap_max_slippage: None, receiver: None, pool_identifier: format!("o.{id}"), unlocking_duration: None, lock_position_identifier: None }, &f).unwrap(); }
    }
    let lps = [w.lp("o.a"), w.lp("o.b")];
    (w, lps)
}
fn cur_epoch(w: &World) -> u64 { (w.app.block_info().time.seconds() - GENESIS) / 86400 }
fn positions(w: &World, u: &Addr) -> Vec<fm::Position> { let r: fm::PositionsResponse = w.app.wrap().query_wasm_smart(w.farm_manager.clone(), &fm::QueryMsg::Positions { filter_by: Some(fm::PositionsBy::Receiver(u.to_string())), open_state: None, start_after: None, limit: Some(10) }).unwrap(); r.positions }
fn farms(w: &World) -> Vec<fm::Farm> { let r: fm::FarmsResponse = w.app.wrap().query_wasm_smart(w.farm_manager.clone(), &fm::QueryMsg::Farms { filter_by: None, start_after: None, limit: Some(50) }).unwrap(); r.farms }
fn lpw(w: &World, who: &Addr, lp: &str, e: u64) -> Option<u128> { w.app.wrap().query_wasm_smart::<fm::LpWeightResponse>(w.farm_manager.clone(), &fm::QueryMsg::LpWeight { address: who.to_string(), denom: lp.to_string(), epoch_id: e }).ok().map(|r| r.lp_weight.u128()) }
fn weights(w: &World, who: &Addr, lp: &str, upto: u64) -> Vec<u128> { let mut v = vec![]; let mut last = 0u128; for e in 0..=upto { if let Some(x) = lpw(w, who, lp, e) { last = x; } v.push(last); } v }

fn enabled(w: &World, lps: &[String; 2]) -> Vec<Op> {
    let mut ops = vec![Op::Advance];
    let cur = cur_epoch(w);
    let fs = farms(w);
    for u in 0..2usize {
        let addr = w.users[u].clone();
        for lp in 0..2usize {
            if u == 1 && lp == 1 { continue; }
            ops.push(Op::CreatePos { u, lp, amount: 1000, dur: if lp == 0 { 86400 } else { 100 * 86400 } });
        }
        if u == 0 { ops.push(Op::CreatePos { u, lp: 0, amount: 3, dur: 100 * 86400 }); }
        for p in positions(w, &addr).iter().take(3) {
            if p.open { ops.push(Op::ExpandPos { u, id: p.identifier.clone() }); ops.push(Op::ClosePos { u, id: p.identifier.clone(), partial: None }); if u == 0 && p.lp_asset.amount.u128() > 1 { ops.push(Op::ClosePos { u, id: p.identifier.clone(), partial: Some(1) }); } }
            ops.push(Op::WithdrawPos { u, id: p.identifier.clone(), emergency: true });
        }
        ops.push(Op::Claim { u, until: None });
        if cur >= 1 { ops.push(Op::Claim { u, until: Some(cur - 1) }); }
        if cur >= 2 && u == 0 { ops.push(Op::Claim { u, until: Some(cur - 2) }); }
    }
    for lp in 0..2usize { if fs.iter().filter(|f| f.lp_denom == lps[lp]).count() < 1 { ops.push(Op::CreateFarm { lp, len: 3 }); } }
    for f in fs.iter() { ops.push(Op::CloseFarm { id: f.identifier.clone() }); ops.push(Op::ExpandFarm { id: f.identifier.clone() }); }
    ops
}
fn apply(w: &mut World, lps: &[String; 2], op: &Op) -> anyhow::Result<cw_multi_test::AppResponse> {
    let fmaddr = w.farm_manager.clone();
    let mp = |action| fm::ExecuteMsg::ManagePosition { action };
    match op {
        Op::Advance => { w.advance(86400); Ok(Default::default()) }
        Op::CreatePos { u, lp, amount, dur } => w.app.execute_contract(w.users[*u].clone(), fmaddr, &mp(fm::PositionAction::Create { identifier: None, unlocking_duration: *dur, receiver: None }), &[coin(*amount, &lps[*lp])]),
        Op::ExpandPos { u, id } => { let p = positions(w, &w.users[*u].clone()).into_iter().find(|p| &p.identifier == id).unwrap(); w.app.execute_contract(w.users[*u].clone(), fmaddr, &mp(fm::PositionAction::Expand { identifier: id.clone() }), &[coin(3, p.lp_asset.denom)]) }
        Op::ClosePos { u, id, partial } => { let p = positions(w, &w.users[*u].clone()).into_iter().find(|p| &p.identifier == id).unwrap(); w.app.execute_contract(w.users[*u].clone(), fmaddr, &mp(fm::PositionAction::Close { identifier: id.clone(), lp_asset: partial.map(|a| coin(a, p.lp_asset.denom.clone())) }), &[]) }
        Op::WithdrawPos { u, id, emergency } => w.app.execute_contract(w.users[*u].clone(), fmaddr, &mp(fm::PositionAction::Withdraw { identifier: id.clone(), emergency_unlock: Some(*emergency) }), &[]),
        Op::Claim { u, until } => w.app.execute_contract(w.users[*u].clone(), fmaddr, &fm::ExecuteMsg::Claim { until_epoch: *until }, &[]),
        Op::CreateFarm { lp, len } => { let cur = cur_epoch(w); w.app.execute_contract(w.users[2].clone(), fmaddr, &fm::ExecuteMsg::ManageFarm { action: fm::FarmAction::Create { params: fm::FarmParams { lp_denom: lps[*lp].clone(), start_epoch: Some(cur + 1), preliminary_end_epoch: Some(cur + 1 + len), curve: None, farm_asset: coin(1000 * *len as u128 + 1, "uusdc"), farm_identifier: None } } }, &[coin(1000, "uom"), coin(1000 * *len as u128 + 1, "uusdc")]) }
        Op::ExpandFarm { id } => { let f = farms(w).into_iter().find(|f| &f.identifier == id).unwrap(); let amt = f.emission_rate.u128(); w.app.execute_contract(w.users[2].clone(), fmaddr, &fm::ExecuteMsg::ManageFarm { action: fm::FarmAction::Expand { params: fm::FarmParams { lp_denom: f.lp_denom.clone(), start_epoch: None, preliminary_end_epoch: None, curve: None, farm_asset: coin(amt, "uusdc"), farm_identifier: Some(id.clone()) } } }, &[coin(amt, "uusdc")]) }
        Op::CloseFarm { id } => w.app.execute_contract(w.users[2].clone(), fmaddr, &fm::ExecuteMsg::ManageFarm { action: fm::FarmAction::Close { farm_identifier: id.clone() } }, &[]),
    }
}
#[derive(Default, Debug, Clone)]
pub struct Stats { pub transitions: u64, pub accepted: u64, pub viol: BTreeMap<String, (u64, String)>, pub claims_paid: u64 }
fn note(st: &mut Stats, kind: &str, hist: &[Op], op: &Op, detail: String) { let e = st.viol.entry(kind.to_string()).or_insert((0, String::new())); e.0 += 1; if e.1.is_empty() { e.1 = format!("hist={:?} op={:?} :: {}", hist, op, detail); } }

fn step(node: &Node, lps: &[String; 2], st: &mut Stats) -> Vec<Node> {
    WORLD.with(|cell| {
        let mut slot = cell.borrow_mut();
        if slot.is_none() { *slot = Some(seed().0); }
        let w = slot.as_mut().unwrap();
        w.restore(&node.snap);
        let ops = enabled(w, lps);
        let mut out = vec![];
        for op in ops {
            w.restore(&node.snap);
            st.transitions += 1;
            let cur = cur_epoch(w);
            let fs_pre = farms(w);
            let pre_bal: Vec<u128> = (0..3).map(|i| w.balance(&w.users[i].clone(), "uusdc")).collect();
            let mut expected: Option<u128> = None; let mut rewards_q: Option<u128> = None;
            if let Op::Claim { u, until } = &op {
                let addr = w.users[*u].clone();
                let until_e = until.unwrap_or(cur);
                let ps = positions(w, &addr);
                if ps.iter().any(|p| p.open) {
                    let mut exp = 0u128;
                    for lp in 0..2usize {
                        if !ps.iter().any(|p| p.open && p.lp_asset.denom == lps[lp]) { continue; }
                        let tl = node.ghost.timeline.get(&(*u, lp)).cloned().unwrap_or_default();
                        let start = match node.ghost.last_claimed.get(u) { Some(l) => l + 1, None => tl.first().map(|x| x.0).unwrap_or(u64::MAX) };
                        let wt = weights(w, &w.farm_manager.clone(), &lps[lp], until_e.max(cur) + 1);
                        for f in fs_pre.iter().filter(|f| f.lp_denom == lps[lp]) {
                            let mut e = start;
                            while e <= until_e { if e >= f.start_epoch && e < f.preliminary_end_epoch { let wu = tl.iter().filter(|x| x.0 <= e).last().map(|x| x.1).unwrap_or(0); let tot = wt[e as usize]; if tot > 0 { exp += f.emission_rate.u128() * wu / tot; } } e += 1; }
                        }
                    }
                    expected = Some(exp);
                    if let Ok(fm::RewardsResponse::RewardsResponse { total_rewards, .. }) = w.app.wrap().query_wasm_smart::<fm::RewardsResponse>(w.farm_manager.clone(), &fm::QueryMsg::Rewards { address: addr.to_string(), until_epoch: *until }) { rewards_q = Some(total_rewards.iter().map(|c| c.amount.u128()).sum()); }
                }
            }
            let r = std::panic::catch_unwind(std::panic::AssertUnwindSafe(|| apply(w, lps, &op)));
            let ok = matches!(r, Ok(Ok(_)));
            if !ok {
                if let (Op::Claim { u, until }, Some(exp)) = (&op, expected) {
                    let until_e = until.unwrap_or(cur);
                    if until_e <= cur && node.ghost.last_claimed.get(u).map_or(true, |l| until_e >= *l) { let msg = match &r { Ok(Err(e)) => e.root_cause().to_string(), _ => "panic".into() }; note(st, "claim_fails", &node.hist, &op, format!("expected payout {exp}: {msg}")); }
                }
                continue;
            }
            st.accepted += 1;
            let mut ghost = node.ghost.clone();
            let cur2 = cur_epoch(w);
            match &op {
                Op::CreatePos { u, .. } | Op::ExpandPos { u, .. } | Op::ClosePos { u, .. } | Op::WithdrawPos { u, .. } => {
                    let addr = w.users[*u].clone();
                    let ps = positions(w, &addr);
                    for lp in 0..2usize {
                        let open_lp = ps.iter().any(|p| p.open && p.lp_asset.denom == lps[lp]);
                        if !open_lp { ghost.timeline.remove(&(*u, lp)); } else if let Some(x) = lpw(w, &addr, &lps[lp], cur2 + 1) { let tl = ghost.timeline.entry((*u, lp)).or_default(); tl.retain(|t| t.0 != cur2 + 1); tl.push((cur2 + 1, x)); }
                    }
                    if !ps.iter().any(|p| p.open) { ghost.last_claimed.remove(u); }
                }
                Op::Claim { u, until } => {
                    let until_e = until.unwrap_or(cur);
                    ghost.last_claimed.insert(*u, until_e);
                    let paid = w.balance(&w.users[*u].clone(), "uusdc") - pre_bal[*u];
                    if paid > 0 { st.claims_paid += 1; }
                    if let Some(exp) = expected { if paid != exp { note(st, "claim_amount", &node.hist, &op, format!("paid {paid} expected {exp}")); } }
                    if let Some(q) = rewards_q { if q != paid { note(st, "rewards_query_ne_claim", &node.hist, &op, format!("query {q} paid {paid}")); } }
                }
                _ => {}
            }
            let fs = farms(w); let fmaddr = w.farm_manager.clone();
            let need_r: u128 = fs.iter().map(|f| f.farm_asset.amount.u128() - f.claimed_amount.u128()).sum();
            if w.balance(&fmaddr, "uusdc") < need_r { note(st, "custody_reward", &node.hist, &op, String::new()); }
            for lp in 0..2usize {
                let e = (cur2 + 1) as usize;
                let tot = weights(w, &fmaddr, &lps[lp], cur2 + 1); let wa = weights(w, &w.users[0].clone(), &lps[lp], cur2 + 1); let wb = weights(w, &w.users[1].clone(), &lps[lp], cur2 + 1);
                if tot[e] < wa[e] + wb[e] { note(st, "total_lt_sum_users", &node.hist, &op, format!("lp{lp} total {} users {}+{}", tot[e], wa[e], wb[e])); }
            }
            for f in &fs { let elapsed = if cur2 >= f.start_epoch { (cur2.min(f.preliminary_end_epoch - 1) - f.start_epoch + 1) as u128 } else { 0 }; if f.claimed_amount.u128() > f.emission_rate.u128() * elapsed { note(st, "farm_overpaid", &node.hist, &op, format!("farm {} claimed {} > rate {} x {}", f.identifier, f.claimed_amount, f.emission_rate, elapsed)); } }
            let mut hist = node.hist.clone(); hist.push(op.clone());
            out.push(Node { snap: w.snapshot(), ghost, hist });
        }
        out
    })
}
fn key(n: &Node) -> u64 { let mut h = std::collections::hash_map::DefaultHasher::new(); n.snap.storage.data.hash(&mut h); n.snap.block.time.nanos().hash(&mut h); n.ghost.hash(&mut h); h.finish() }

pub fn run(depth: usize) {
    std::panic::set_hook(Box::new(|_| {}));
    let (w, lps) = seed();
    let mut init = Node { snap: w.snapshot(), ghost: Ghost::default(), hist: vec![] };
    let prefix = vec![Op::CreatePos { u: 0, lp: 0, amount: 1000, dur: 86400 }, Op::CreatePos { u: 1, lp: 0, amount: 1000, dur: 86400 }, Op::CreatePos { u: 0, lp: 1, amount: 1000, dur: 100 * 86400 }, Op::CreateFarm { lp: 0, len: 3 }, Op::CreateFarm { lp: 1, len: 3 }, Op::Advance, Op::Advance];
    for op in prefix { let mut st = Stats::default(); let outs = step(&init, &lps, &mut st); init = outs.into_iter().find(|n| n.hist.last() == Some(&op)).expect("prefix op not accepted"); }
    init.hist.clear();
    println!("seeded: ghost={:?}", init.ghost);
    let mut seen: HashSet<u64> = HashSet::new(); seen.insert(key(&init));
    let mut frontier = vec![init]; let mut total = Stats::default(); let t0 = std::time::Instant::now();
    for d in 1..=depth {
        let results: Vec<(Vec<Node>, Stats)> = frontier.par_iter().map(|n| { let mut st = Stats::default(); let out = step(n, &lps, &mut st); (out, st) }).collect();
        let mut next = vec![];
        for (out, st) in results { total.transitions += st.transitions; total.accepted += st.accepted; total.claims_paid += st.claims_paid; for (k, v) in st.viol { let e = total.viol.entry(k).or_insert((0, String::new())); e.0 += v.0; if e.1.is_empty() || v.1.len() < e.1.len() { e.1 = v.1; } } for n in out { if seen.insert(key(&n)) { next.push(n); } } }
        println!("depth {d}: frontier {} -> new {} | transitions {} accepted {} paying-claims {} | {:?}", frontier.len(), next.len(), total.transitions, total.accepted, total.claims_paid, t0.elapsed());
        frontier = next;
    }
    println!("states {} transitions {}", seen.len(), total.transitions);
    for (k, v) in &total.viol { println!("VIOL {k}: count {} e.g. {}", v.0, &v.1[..v.1.len().min(900)]); }
}
