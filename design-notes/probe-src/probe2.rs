use crate::world::*;
use cosmwasm_std::{coin, Coin, Decimal};
use cw_multi_test::Executor;
use mantra_dex_std::farm_manager as fm;
use mantra_dex_std::pool_manager as pm;

pub fn weights() {
    println!("== C10 probe: top-up in pieces then full close");
    // find duration & amount with rounding gap
    let found = Some((100u64 * 86400, 3u128, 0u128, 0u128));
    let (d, a, _, _) = found.unwrap();
    let mut w = World::new(3, vec![coin(10u128.pow(30), "uom"), coin(10u128.pow(30), "uusd"), coin(10u128.pow(30), "uusdc")], vec![coin(8888, "uom")], coin(1000, "uom"), coin(1000, "uusd"));
    let u0 = w.users[0].clone(); let u1 = w.users[1].clone();
    w.app.execute_contract(u0.clone(), w.pool_manager.clone(), &pm::ExecuteMsg::CreatePool { asset_denoms: vec!["uom".into(), "uusd".into()], asset_decimals: vec![6, 6], pool_fees: mantra_dex_std::fee::PoolFee { protocol_fee: mantra_dex_std::fee::Fee { share: Decimal::zero() }, swap_fee: mantra_dex_std::fee::Fee { share: Decimal::zero() }, burn_fee: mantra_dex_std::fee::Fee { share: Decimal::zero() }, extra_fees: vec![] }, pool_type: pm::PoolType::ConstantProduct, pool_identifier: Some("a".into()) }, &[coin(8888, "uom"), coin(1000, "uusd")]).unwrap();
    for u in [&u0, &u1] {
        w.app.execute_contract(u.clone(), w.pool_manager.clone(), &pm::ExecuteMsg::ProvideLiquidity { liquidity_max_slippage: None, swap_max_slippage: None, receiver: None, pool_identifier: "o.a".into(), unlocking_duration: None, lock_position_identifier: None }, &[coin(10_000_000, "uom"), coin(10_000_000, "uusd")]).unwrap();
    }
    let lp = w.lp("o.a");
    let mp = |action| fm::ExecuteMsg::ManagePosition { action };
    // farm paying 1000/epoch epochs [1, 11)
    w.app.execute_contract(u0.clone(), w.farm_manager.clone(), &fm::ExecuteMsg::ManageFarm { action: fm::FarmAction::Create { params: fm::FarmParams { lp_denom: lp.clone(), start_epoch: Some(1), preliminary_end_epoch: Some(11), curve: None, farm_asset: coin(10_000, "uusdc"), farm_identifier: None } } }, &[coin(1000, "uom"), coin(10_000, "uusdc")]).unwrap();
    // u0: create a then expand a (two pieces)
    w.app.execute_contract(u0.clone(), w.farm_manager.clone(), &mp(fm::PositionAction::Create { identifier: Some("x".into()), unlocking_duration: d, receiver: None }), &[coin(a, &lp)]).unwrap();
    w.app.execute_contract(u0.clone(), w.farm_manager.clone(), &mp(fm::PositionAction::Expand { identifier: "u-x".into() }), &[coin(a, &lp)]).unwrap();
    // u1: position of 1 unit 1 day => weight 1
    w.app.execute_contract(u1.clone(), w.farm_manager.clone(), &mp(fm::PositionAction::Create { identifier: Some("y".into()), unlocking_duration: 86400, receiver: None }), &[coin(3, &lp)]).unwrap();
    let lw = |w: &World, who: &cosmwasm_std::Addr, e: u64| -> Option<u128> {
        w.app.wrap().query_wasm_smart::<fm::LpWeightResponse>(w.farm_manager.clone(), &fm::QueryMsg::LpWeight { address: who.to_string(), denom: lp.clone(), epoch_id: e }).ok().map(|r| r.lp_weight.u128())
    };
    println!("epoch1 weights: contract={:?} u0={:?} u1={:?}", lw(&w, &w.farm_manager.clone(), 1), lw(&w, &u0, 1), lw(&w, &u1, 1));
    // u0 closes in full (same epoch 0)
    let r = w.app.execute_contract(u0.clone(), w.farm_manager.clone(), &mp(fm::PositionAction::Close { identifier: "u-x".into(), lp_asset: None }), &[]);
    println!("u0 close: {:?}", r.map(|_| ()).map_err(|e| e.root_cause().to_string()));
    println!("epoch1 weights after close: contract={:?} u0={:?} u1={:?}", lw(&w, &w.farm_manager.clone(), 1), lw(&w, &u0, 1), lw(&w, &u1, 1));
    w.advance(86400 * 2);
    let before = w.balance(&u1, "uusdc");
    let r = w.app.execute_contract(u1.clone(), w.farm_manager.clone(), &fm::ExecuteMsg::Claim { until_epoch: None }, &[]);
    println!("u1 claim epochs 1..2: {:?} got {} (emission 2 x 1000)", r.map(|_| ()).map_err(|e| e.root_cause().to_string()), w.balance(&u1, "uusdc") - before);
}

pub fn reverse_sim() {
    println!("== C12 probe: reverse simulation on constant product");
    use pool_manager::helpers::{compute_offer_amount, compute_swap};
    use mantra_dex_std::fee::{Fee, PoolFee};
    use mantra_dex_std::pool_manager::{PoolInfo, PoolStatus, PoolType};
    let mut bad = 0u64; let mut n = 0u64; let mut errs = 0u64; let mut first: Vec<String> = vec![];
    for (p, s, b) in [(0u64, 0u64, 0u64), (1, 2, 1), (10, 30, 0), (50, 100, 50), (0, 3, 0)] {
        let pf = PoolFee { protocol_fee: Fee { share: Decimal::permille(p) }, swap_fee: Fee { share: Decimal::permille(s) }, burn_fee: Fee { share: Decimal::permille(b) }, extra_fees: vec![] };
        for x in [1u128, 2, 3, 7, 10, 100, 1000, 12345, 1_000_000, 999_999_937, 10u128.pow(18)] {
            for y in [1u128, 2, 3, 7, 10, 100, 1000, 54321, 1_000_000, 1_000_000_007, 10u128.pow(24)] {
                let pool = PoolInfo { pool_identifier: "p".into(), asset_denoms: vec!["a".into(), "b".into()], lp_denom: "factory/x/p.LP".into(), asset_decimals: vec![6, 6], assets: vec![coin(x, "a"), coin(y, "b")], pool_type: PoolType::ConstantProduct, pool_fees: pf.clone(), status: PoolStatus::default() };
                for ask in [1u128, 2, 3, 5, 10, 99, 1000, y / 3, y / 2, y - 1, y * 9 / 10] {
                    if ask == 0 || ask >= y { continue; }
                    n += 1;
                    let r = std::panic::catch_unwind(|| compute_offer_amount(x.into(), y.into(), ask.into(), pf.clone()));
                    let off = match r { Ok(Ok(o)) => o.offer_amount.u128(), _ => { errs += 1; continue; } };
                    let got = compute_swap(&pool, &coin(off + 1, "a"), "b");
                    match got {
                        Ok(sc) => if sc.return_amount.u128() < ask { bad += 1; if first.len() < 12 { first.push(format!("fees=({p},{s},{b})permille x={x} y={y} ask={ask} quoted_offer={off} swap(off+1) returns {}", sc.return_amount)); } },
                        Err(e) => { errs += 1; if first.len() < 12 { first.push(format!("ERR x={x} y={y} ask={ask} off={off}: {e}")); } }
                    }
                }
            }
        }
    }
    println!("cases={n} errs={errs} short={bad}");
    for f in first { println!("  {f}"); }
}
