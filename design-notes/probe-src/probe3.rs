use crate::exact::*;
use cosmwasm_std::{coin, Decimal, Uint128};
use mantra_dex_std::fee::{Fee, PoolFee};
use mantra_dex_std::pool_manager::{PoolInfo, PoolStatus, PoolType};
use num_bigint::BigInt;
use pool_manager::helpers::compute_lp_mint_amount_for_stableswap_deposit;

pub fn run() {
    const K: u32 = 6;
    let mut n = 0u64; let mut bad = 0u64; let mut errs = 0u64; let mut worst = (BigInt::from(0), String::new());
    let mut shown = 0;
    for amp in [1u64, 10, 100, 5000] {
        for decs in [vec![6u8, 6], vec![6, 18], vec![6, 6, 6], vec![6, 12, 18, 8]] {
            let nn = decs.len();
            let maxd = *decs.iter().max().unwrap() as u32;
            for swap_fee in [0u64, 3, 30] {
                for base_tok in [(2u128, -3i32), (5, 0), (1, 6), (1, 12)] {
                    for skew in [1u128, 3, 1000] {
                        let mut res = vec![]; let mut ok = true;
                        for (i, d) in decs.iter().enumerate() { let ex = *d as i32 + base_tok.1; if ex < 0 { ok = false; break; } let b = base_tok.0 * 10u128.pow(ex as u32); res.push(if i == 0 { b * skew } else { b }); }
                        if !ok { continue; }
                        let denoms: Vec<String> = (0..nn).map(|i| format!("d{i}")).collect();
                        let p = PoolInfo { pool_identifier: "p".into(), asset_denoms: denoms.clone(), lp_denom: "factory/x/p.LP".into(), asset_decimals: decs.clone(), assets: denoms.iter().zip(&res).map(|(d, a)| coin(*a, d)).collect(), pool_type: PoolType::StableSwap { amp }, pool_fees: PoolFee { protocol_fee: Fee { share: Decimal::zero() }, swap_fee: Fee { share: Decimal::permille(swap_fee) }, burn_fee: Fee { share: Decimal::zero() }, extra_fees: vec![] }, status: PoolStatus::default() };
                        let ann = BigInt::from(amp) * BigInt::from(nn as u64);
                        let xs0: Vec<BigInt> = res.iter().zip(&decs).map(|(r, d)| scale(*r, *d as u32, maxd, K)).collect();
                        let d0 = exact_d_floor(&xs0, &ann);
                        // supply: pretend supply == D0 in max precision units (as after first deposit)
                        let supply: u128 = (&d0 / BigInt::from(10u32).pow(K)).to_string().parse::<u128>().unwrap_or(u128::MAX / 4);
                        // deposit shapes: proportional 1%, single asset 0 (10%), single asset last (10%), dust 1 unit of asset0, all but one
                        let shapes: Vec<Vec<u128>> = vec![
                            res.iter().map(|r| r / 100).collect(),
                            res.iter().enumerate().map(|(i, r)| if i == 0 { r / 10 } else { 0 }).collect(),
                            res.iter().enumerate().map(|(i, r)| if i == nn - 1 { r / 10 } else { 0 }).collect(),
                            res.iter().enumerate().map(|(i, _)| if i == 0 { 1 } else { 0 }).collect(),
                            res.iter().enumerate().map(|(i, r)| if i == 0 { 0 } else { r * 2 }).collect(),
                        ];
                        for sh in shapes {
                            if sh.iter().all(|x| *x == 0) { continue; }
                            let newa: Vec<_> = p.assets.iter().zip(&sh).map(|(c, a)| coin(c.amount.u128() + a, &c.denom)).collect();
                            n += 1;
                            let r = std::panic::catch_unwind(|| compute_lp_mint_amount_for_stableswap_deposit(&amp, &p.assets, &newa, Uint128::new(supply), &p));
                            let mint = match r { Ok(Ok(Some(m))) => m.u128(), _ => { errs += 1; continue; } };
                            let xs1: Vec<BigInt> = newa.iter().zip(&decs).map(|(c, d)| scale(c.amount.u128(), *d as u32, maxd, K)).collect();
                            let d1 = exact_d_floor(&xs1, &ann);
                            // dilution iff D1/(S+mint) < D0/S  <=> D1*S < D0*(S+mint)
                            let s = BigInt::from(supply); let m = BigInt::from(mint);
                            let lhs = &d1 * &s; let rhs = &d0 * (&s + &m);
                            if lhs < rhs {
                                // excess mint in LP units: mint - S*(D1-D0)/D0
                                let fair = &s * (&d1 - &d0) / &d0;
                                let ex = &m - &fair;
                                bad += 1;
                                if ex > worst.0 { worst = (ex.clone(), format!("amp={amp} decs={decs:?} fee={swap_fee} res={res:?} dep={sh:?} supply={supply} mint={mint} fair={fair}")); }
                                if shown < 12 && ex > BigInt::from(2) { shown += 1; println!("DILUTE amp={amp} decs={decs:?} fee={swap_fee}permille res={res:?} dep={sh:?} supply={supply} mint={mint} fair={fair} excess={ex}"); }
                            }
                        }
                    }
                }
            }
        }
    }
    println!("cases={n} errs={errs} diluting={bad} worst_excess={:?}", worst);
}
