//! mini BFS over the pool universe: C01 ledger equality, C04 conservation, C12a quote==execution, C02/C03 CP exact
use crate::exact::*;
use crate::world::*;
use cosmwasm_std::{coin, Addr, Coin, Decimal, Uint128};
use cw_multi_test::Executor;
use mantra_dex_std::fee::{Fee, PoolFee};
use mantra_dex_std::pool_manager as pm;
use num_bigint::BigInt;
use rayon::prelude::*;
use std::cell::RefCell;
use std::collections::{BTreeMap, HashSet};
use std::hash::{Hash, Hasher};

const DENOMS: [&str; 4] = ["uom", "uusd", "uusdc", "ausdy"];

#[derive(Clone, Debug, PartialEq, Eq, Hash)]
pub enum Op {
    Swap { u: usize, pool: String, offer: String, ask: String, amt: u128, slip: Option<u64> },
    Route { u: usize, hops: Vec<(String, String, String)>, amt: u128, min: Option<u128> },
    Provide { u: usize, pool: String, funds: Vec<(String, u128)>, lock: Option<u64> },
    Withdraw { u: usize, pool: String, amt: u128 },
    Donate { u: usize, denom: String, amt: u128 },
}

#[derive(Clone, Default, Debug, PartialEq, Eq, Hash)]
pub struct Ghost {
    pub donated: BTreeMap<String, u128>,
    pub odd: BTreeMap<String, u128>,
}

#[derive(Clone)]
pub struct Node {
    pub snap: Snapshot,
    pub ghost: Ghost,
    pub hist: Vec<Op>,
}

thread_local! { static WORLD: RefCell<Option<World>> = RefCell::new(None); }

fn pf(p: u64, s: u64, b: u64, x: u64) -> PoolFee {
    PoolFee {
        protocol_fee: Fee { share: Decimal::permille(p) },
        swap_fee: Fee { share: Decimal::permille(s) },
        burn_fee: Fee { share: Decimal::permille(b) },
        extra_fees: if x > 0 { vec![Fee { share: Decimal::permille(x) }] } else { vec![] },
    }
}

pub fn seed(zero_fee: bool) -> World {
    let mut w = World::new(
        3,
        vec![coin(10u128.pow(30), "uom"), coin(10u128.pow(30), "uusd"), coin(10u128.pow(30), "uusdc"), coin(10u128.pow(36), "ausdy")],
        vec![coin(8888, "uom")],
        coin(1000, "uom"),
        coin(1000, "uusd"),
    );
    let u0 = w.users[0].clone();
    let f = if zero_fee { pf(0, 0, 0, 0) } else { pf(1, 2, 1, 1) };
    for (den, dec, ty, id) in [
        (vec!["uom", "uusd"], vec![6u8, 6], pm::PoolType::ConstantProduct, "cp"),
        (vec!["uusd", "uusdc", "ausdy"], vec![6, 6, 18], pm::PoolType::StableSwap { amp: 100 }, "ss"),
    ] {
        w.app
            .execute_contract(
                u0.clone(),
                w.pool_manager.clone(),
                &pm::ExecuteMsg::CreatePool { asset_denoms: den.iter().map(|s| s.to_string()).collect(), asset_decimals: dec, pool_fees: f.clone(), pool_type: ty, pool_identifier: Some(id.into()) },
                &[coin(8888, "uom"), coin(1000, "uusd")],
            )
            .unwrap();
    }
    w.app.execute_contract(u0.clone(), w.pool_manager.clone(), &provide_msg("o.cp", None), &[coin(10_000_000, "uom"), coin(20_000_000, "uusd")]).unwrap();
    w.app
        .execute_contract(u0.clone(), w.pool_manager.clone(), &provide_msg("o.ss", None), &[coin(10u128.pow(19), "ausdy"), coin(10_000_000, "uusd"), coin(10_000_000, "uusdc")])
        .unwrap();
    w
}

pub fn provide_msg(pool: &str, lock: Option<u64>) -> pm::ExecuteMsg {
    pm::ExecuteMsg::ProvideLiquidity { liquidity_max_slippage: None, swap_max_slippage: Some(Decimal::percent(50)), receiver: None, pool_identifier: pool.into(), unlocking_duration: lock, lock_position_identifier: None }
}

pub fn pools(w: &World) -> Vec<pm::PoolInfoResponse> {
    let r: pm::PoolsResponse = w.app.wrap().query_wasm_smart(w.pool_manager.clone(), &pm::QueryMsg::Pools { pool_identifier: None, start_after: None, limit: Some(50) }).unwrap();
    r.pools
}

pub fn accounts(w: &World) -> Vec<Addr> {
    let mut v = w.users.clone();
    v.push(w.pool_manager.clone());
    v.push(w.farm_manager.clone());
    v.push(w.fee_collector.clone());
    v
}

pub fn enabled(w: &World) -> Vec<Op> {
    let mut ops = vec![];
    let ps = pools(w);
    for u in 1..3usize {
        let addr = w.users[u].clone();
        for p in &ps {
            let id = p.pool_info.pool_identifier.clone();
            let assets = &p.pool_info.assets;
            // swaps: first two assets both directions + (for ss) last->first
            let mut pairs = vec![(0usize, 1usize), (1, 0)];
            if assets.len() > 2 {
                pairs.push((2, 0));
                pairs.push((0, 2));
            }
            for (i, j) in pairs {
                let r = assets[i].amount.u128();
                for amt in [1u128, r / 100, r * 3 / 10] {
                    if amt == 0 { continue; }
                    ops.push(Op::Swap { u, pool: id.clone(), offer: assets[i].denom.clone(), ask: assets[j].denom.clone(), amt, slip: Some(50) });
                }
                ops.push(Op::Swap { u, pool: id.clone(), offer: assets[i].denom.clone(), ask: assets[j].denom.clone(), amt: r / 1000 + 1, slip: None });
            }
            // provide
            if u == 1 {
                let prop: Vec<(String, u128)> = assets.iter().map(|c| (c.denom.clone(), c.amount.u128() / 50 + 1)).collect();
                ops.push(Op::Provide { u, pool: id.clone(), funds: prop.clone(), lock: None });
                let mut skew = prop.clone();
                skew[0].1 *= 3;
                ops.push(Op::Provide { u, pool: id.clone(), funds: skew, lock: None });
                ops.push(Op::Provide { u, pool: id.clone(), funds: vec![(assets[0].denom.clone(), 100_001)], lock: None });
                ops.push(Op::Provide { u, pool: id.clone(), funds: vec![(assets[1].denom.clone(), 100_000)], lock: Some(86400) });
                if assets.len() > 2 {
                    ops.push(Op::Provide { u, pool: id.clone(), funds: vec![(assets[0].denom.clone(), 5000), (assets[1].denom.clone(), 7000)], lock: None });
                }
                ops.push(Op::Provide { u, pool: id.clone(), funds: prop, lock: Some(86400) });
            }
            let lpbal = w.balance(&addr, &p.pool_info.lp_denom);
            if lpbal > 0 {
                for amt in [lpbal, lpbal / 3, 1] {
                    if amt > 0 { ops.push(Op::Withdraw { u, pool: id.clone(), amt }); }
                }
            }
        }
        if u == 2 {
            ops.push(Op::Route { u, hops: vec![("uom".into(), "uusd".into(), "o.cp".into()), ("uusd".into(), "uusdc".into(), "o.ss".into())], amt: 50_000, min: None });
            ops.push(Op::Route { u, hops: vec![("uusdc".into(), "uusd".into(), "o.ss".into()), ("uusd".into(), "uom".into(), "o.cp".into())], amt: 50_000, min: Some(1) });
            ops.push(Op::Route { u, hops: vec![("uom".into(), "uusd".into(), "o.cp".into()), ("uusd".into(), "uom".into(), "o.cp".into())], amt: 33_333, min: None });
            ops.push(Op::Donate { u, denom: "uusd".into(), amt: 7 });
        }
    }
    ops
}

pub fn apply(w: &mut World, op: &Op) -> anyhow::Result<cw_multi_test::AppResponse> {
    let pmaddr = w.pool_manager.clone();
    match op {
        Op::Swap { u, pool, offer, ask, amt, slip } => w.app.execute_contract(
            w.users[*u].clone(),
            pmaddr,
            &pm::ExecuteMsg::Swap { ask_asset_denom: ask.clone(), belief_price: None, max_slippage: slip.map(Decimal::percent), receiver: None, pool_identifier: pool.clone() },
            &[coin(*amt, offer)],
        ),
        Op::Route { u, hops, amt, min } => w.app.execute_contract(
            w.users[*u].clone(),
            pmaddr,
            &pm::ExecuteMsg::ExecuteSwapOperations {
                operations: hops.iter().map(|(i, o, p)| pm::SwapOperation::MantraSwap { token_in_denom: i.clone(), token_out_denom: o.clone(), pool_identifier: p.clone() }).collect(),
                minimum_receive: min.map(Uint128::new),
                receiver: None,
                max_slippage: Some(Decimal::percent(50)),
            },
            &[coin(*amt, &hops[0].0)],
        ),
        Op::Provide { u, pool, funds, lock } => {
            let mut f: Vec<Coin> = funds.iter().map(|(d, a)| coin(*a, d)).collect();
            f.sort_by(|a, b| a.denom.cmp(&b.denom));
            w.app.execute_contract(w.users[*u].clone(), pmaddr, &provide_msg(pool, *lock), &f)
        }
        Op::Withdraw { u, pool, amt } => {
            let lp = w.lp(pool);
            w.app.execute_contract(w.users[*u].clone(), pmaddr, &pm::ExecuteMsg::WithdrawLiquidity { pool_identifier: pool.clone() }, &[coin(*amt, lp)])
        }
        Op::Donate { u, denom, amt } => w.app.send_tokens(w.users[*u].clone(), pmaddr, &[coin(*amt, denom)]),
    }
}

#[derive(Default, Debug, Clone)]
pub struct Stats {
    pub transitions: u64,
    pub accepted: u64,
    pub viol: BTreeMap<String, (u64, String)>,
    pub kinds: BTreeMap<String, (u64, u64)>,
}
fn note(st: &mut Stats, kind: &str, hist: &[Op], op: &Op, detail: String) {
    let e = st.viol.entry(kind.to_string()).or_insert((0, String::new()));
    e.0 += 1;
    if e.1.is_empty() { e.1 = format!("hist={:?} op={:?} :: {}", hist, op, detail); }
}

pub fn bal_table(w: &World, lps: &[String]) -> BTreeMap<(usize, String), u128> {
    let mut m = BTreeMap::new();
    for (i, a) in accounts(w).iter().enumerate() {
        for d in DENOMS.iter().map(|s| s.to_string()).chain(lps.iter().cloned()) {
            m.insert((i, d.clone()), w.balance(a, &d));
        }
    }
    m
}

fn d_exact(p: &pm::PoolInfo) -> BigInt {
    if let pm::PoolType::StableSwap { amp } = p.pool_type {
        let maxd = *p.asset_decimals.iter().max().unwrap() as u32;
        let xs: Vec<BigInt> = p.assets.iter().zip(&p.asset_decimals).map(|(c, d)| scale(c.amount.u128(), *d as u32, maxd, 6)).collect();
        exact_d_floor(&xs, &(BigInt::from(amp) * BigInt::from(p.assets.len() as u64)))
    } else {
        BigInt::from(0)
    }
}

fn step(node: &Node, st: &mut Stats, zero_fee: bool) -> Vec<Node> {
    WORLD.with(|cell| {
        let mut slot = cell.borrow_mut();
        if slot.is_none() { *slot = Some(seed(zero_fee)); }
        let w = slot.as_mut().unwrap();
        w.restore(&node.snap);
        let ops = enabled(w);
        let pre_pools = pools(w);
        let lps: Vec<String> = pre_pools.iter().map(|p| p.pool_info.lp_denom.clone()).collect();
        let pre_bal = bal_table(w, &lps);
        let pre_supply: BTreeMap<String, u128> = DENOMS.iter().map(|d| d.to_string()).chain(lps.iter().cloned()).map(|d| (d.clone(), w.supply(&d))).collect();
        let mut out = vec![];
        for op in ops {
            w.restore(&node.snap);
            st.transitions += 1;
            let kind = format!("{:?}", op).split(' ').next().unwrap().to_string();
            // quotes
            let mut quote: Option<pm::SimulationResponse> = None;
            let mut rquote: Option<u128> = None;
            match &op {
                Op::Swap { pool, offer, ask, amt, .. } => {
                    quote = w.app.wrap().query_wasm_smart(w.pool_manager.clone(), &pm::QueryMsg::Simulation { offer_asset: coin(*amt, offer), ask_asset_denom: ask.clone(), pool_identifier: pool.clone() }).ok();
                }
                Op::Route { hops, amt, .. } => {
                    let r: Result<pm::SimulateSwapOperationsResponse, _> = w.app.wrap().query_wasm_smart(
                        w.pool_manager.clone(),
                        &pm::QueryMsg::SimulateSwapOperations { offer_amount: Uint128::new(*amt), operations: hops.iter().map(|(i, o, p)| pm::SwapOperation::MantraSwap { token_in_denom: i.clone(), token_out_denom: o.clone(), pool_identifier: p.clone() }).collect() },
                    );
                    rquote = r.ok().map(|x| x.return_amount.u128());
                }
                _ => {}
            }
            let r = std::panic::catch_unwind(std::panic::AssertUnwindSafe(|| apply(w, &op)));
            let ok = matches!(r, Ok(Ok(_)));
            let e = st.kinds.entry(kind.clone()).or_default();
            if ok { e.0 += 1 } else { e.1 += 1 }
            let post_pools = pools(w);
            let post_bal = bal_table(w, &lps);
            if !ok {
                if post_bal != pre_bal || post_pools != pre_pools { note(st, "rejected_changed_state", &node.hist, &op, String::new()); }
                continue;
            }
            st.accepted += 1;
            let mut ghost = node.ghost.clone();
            let pmi = 3usize; // index of pool manager in accounts()
            let fci = 5usize;
            let delta = |acc: usize, d: &str| -> i128 { post_bal[&(acc, d.to_string())] as i128 - pre_bal[&(acc, d.to_string())] as i128 };
            match &op {
                Op::Donate { denom, amt, .. } => { *ghost.donated.entry(denom.clone()).or_default() += amt; }
                Op::Provide { funds, .. } if funds.len() == 1 && funds[0].1 % 2 == 1 => { *ghost.odd.entry(funds[0].0.clone()).or_default() += 1; }
                _ => {}
            }
            // ---- C01 ledger equality
            for d in DENOMS {
                let sum: u128 = post_pools.iter().flat_map(|p| p.pool_info.assets.iter()).filter(|c| c.denom == d).map(|c| c.amount.u128()).sum();
                let want = sum + ghost.donated.get(d).copied().unwrap_or(0) + ghost.odd.get(d).copied().unwrap_or(0);
                let have = post_bal[&(pmi, d.to_string())];
                if have != want { note(st, "C01_backing", &node.hist, &op, format!("{d}: bank {have} != reserves+ledger {want}")); }
            }
            for p in &post_pools {
                let locked = post_bal[&(pmi, p.pool_info.lp_denom.clone())];
                let exp = match p.pool_info.pool_type { pm::PoolType::ConstantProduct => 1000u128, _ => 1000 * 10u128.pow(12) };
                if locked != exp { note(st, "C01_lp_locked", &node.hist, &op, format!("{} locked {locked} exp {exp}", p.pool_info.lp_denom)); }
            }
            // ---- per-op oracles
            match &op {
                Op::Swap { u, pool, offer, ask, amt, .. } => {
                    let pre = pre_pools.iter().find(|p| &p.pool_info.pool_identifier == pool).unwrap();
                    let post = post_pools.iter().find(|p| &p.pool_info.pool_identifier == pool).unwrap();
                    let r = |pp: &pm::PoolInfoResponse, d: &str| pp.pool_info.assets.iter().find(|c| c.denom == d).unwrap().amount.u128();
                    let got = delta(*u, ask);
                    let fee_fc = delta(fci, ask);
                    let burned = pre_supply[ask] as i128 - w.supply(ask) as i128;
                    if delta(*u, offer) != -(*amt as i128) { note(st, "C04_sender_offer", &node.hist, &op, format!("{}", delta(*u, offer))); }
                    if r(post, offer) != r(pre, offer) + amt { note(st, "C04_offer_reserve", &node.hist, &op, String::new()); }
                    if (r(pre, ask) as i128 - r(post, ask) as i128) != got + fee_fc + burned { note(st, "C04_ask_reserve", &node.hist, &op, format!("dres {} got {got} fc {fee_fc} burn {burned}", r(pre, ask) as i128 - r(post, ask) as i128)); }
                    if let Some(q) = &quote {
                        if q.return_amount.u128() as i128 != got || q.protocol_fee_amount.u128() as i128 != fee_fc || q.burn_fee_amount.u128() as i128 != burned {
                            note(st, "C12_quote_ne_exec", &node.hist, &op, format!("quote {:?} got {got} fc {fee_fc} burn {burned}", q));
                        }
                        // fee formula on gross
                        let gross = q.return_amount.u128() + q.swap_fee_amount.u128() + q.protocol_fee_amount.u128() + q.burn_fee_amount.u128() + q.extra_fees_amount.u128();
                        let fees = &pre.pool_info.pool_fees;
                        let fl = |share: Decimal| -> u128 { (BigInt::from(gross) * BigInt::from(share.atomics().u128()) / BigInt::from(10u128.pow(18))).to_string().parse().unwrap() };
                        if fl(fees.protocol_fee.share) != q.protocol_fee_amount.u128() || fl(fees.swap_fee.share) != q.swap_fee_amount.u128() || fl(fees.burn_fee.share) != q.burn_fee_amount.u128() {
                            note(st, "C04_fee_formula", &node.hist, &op, format!("gross {gross} {:?}", q));
                        }
                    } else { note(st, "C12_quote_failed_exec_ok", &node.hist, &op, String::new()); }
                    // others untouched
                    for acc in 0..6 { for d in DENOMS { if acc != *u && acc != pmi && acc != fci && delta(acc, d) != 0 { note(st, "C04_third_party", &node.hist, &op, format!("acc {acc} {d}")); } } }
                    // C03
                    match pre.pool_info.pool_type {
                        pm::PoolType::ConstantProduct => {
                            let k0 = BigInt::from(r(pre, offer)) * BigInt::from(r(pre, ask));
                            let k1 = BigInt::from(r(post, offer)) * BigInt::from(r(post, ask));
                            if k1 < k0 { note(st, "C03_cp_k_decreased", &node.hist, &op, String::new()); }
                        }
                        _ => {
                            let d0 = d_exact(&pre.pool_info); let d1 = d_exact(&post.pool_info);
                            if d1 < d0 { note(st, "C03_ss_D_decreased", &node.hist, &op, format!("{d0} -> {d1}")); }
                        }
                    }
                }
                Op::Route { u, hops, amt, .. } => {
                    let last = &hops.last().unwrap().1;
                    let first = &hops[0].0;
                    let got = if last == first { delta(*u, last) + *amt as i128 } else { delta(*u, last) };
                    if let Some(q) = rquote {
                        let revisits = { let mut s = HashSet::new(); hops.iter().any(|h| !s.insert(h.2.clone())) };
                        if !revisits && q as i128 != got { note(st, "C12_route_quote_ne_exec", &node.hist, &op, format!("quote {q} got {got}")); }
                    }
                    // intermediate denoms never reach the user
                    for h in &hops[..hops.len() - 1] { if &h.1 != last && &h.1 != first && delta(*u, &h.1) != 0 { note(st, "C04_route_intermediate", &node.hist, &op, String::new()); } }
                }
                Op::Provide { u, pool, funds, lock } => {
                    let pre = pre_pools.iter().find(|p| &p.pool_info.pool_identifier == pool).unwrap();
                    let post = post_pools.iter().find(|p| &p.pool_info.pool_identifier == pool).unwrap();
                    let lp = &pre.pool_info.lp_denom;
                    let s0 = pre.total_share.amount.u128(); let s1 = post.total_share.amount.u128();
                    let minted = s1 - s0;
                    let to_user = delta(*u, lp); let to_fm = delta(4, lp);
                    if lock.is_some() { if to_fm != minted as i128 || to_user != 0 { note(st, "C14_lock_dest", &node.hist, &op, format!("minted {minted} user {to_user} fm {to_fm}")); } }
                    else if to_user != minted as i128 { note(st, "C02_mint_dest", &node.hist, &op, format!("minted {minted} user {to_user}")); }
                    if let pm::PoolType::ConstantProduct = pre.pool_info.pool_type {
                        let x0 = pre.pool_info.assets[0].amount.u128(); let y0 = pre.pool_info.assets[1].amount.u128();
                        let x1 = post.pool_info.assets[0].amount.u128(); let y1 = post.pool_info.assets[1].amount.u128();
                        // value per LP non-decreasing: x1*y1*s0^2 >= x0*y0*s1^2
                        let l = BigInt::from(x1) * BigInt::from(y1) * BigInt::from(s0) * BigInt::from(s0);
                        let rr = BigInt::from(x0) * BigInt::from(y0) * BigInt::from(s1) * BigInt::from(s1);
                        if l < rr { note(st, "C02_cp_dilution", &node.hist, &op, format!("{x0},{y0},{s0} -> {x1},{y1},{s1}")); }
                        if funds.len() == 2 {
                            let dep = |d: &str| funds.iter().find(|f| f.0 == d).unwrap().1;
                            let a = BigInt::from(dep(&pre.pool_info.assets[0].denom)) * BigInt::from(s0) / BigInt::from(x0);
                            let b = BigInt::from(dep(&pre.pool_info.assets[1].denom)) * BigInt::from(s0) / BigInt::from(y0);
                            let m = a.min(b);
                            if m != BigInt::from(minted) { note(st, "C02_cp_mint_formula", &node.hist, &op, format!("minted {minted} expected {m}")); }
                        }
                    } else {
                        let d0 = d_exact(&pre.pool_info); let d1 = d_exact(&post.pool_info);
                        // dilution beyond 2-unit granularity: (d1+2k)*s0 < (d0-2k)*s1 ?
                        let k = BigInt::from(2_000_000u64);
                        if (&d1 + &k) * BigInt::from(s0) < (&d0 - &k) * BigInt::from(s1) { note(st, "C02_ss_dilution", &node.hist, &op, format!("D {d0}->{d1} S {s0}->{s1}")); }
                    }
                }
                Op::Withdraw { u, pool, amt } => {
                    let pre = pre_pools.iter().find(|p| &p.pool_info.pool_identifier == pool).unwrap();
                    let post = post_pools.iter().find(|p| &p.pool_info.pool_identifier == pool).unwrap();
                    let s0 = pre.total_share.amount.u128();
                    if post.total_share.amount.u128() != s0 - amt { note(st, "C02_burn", &node.hist, &op, String::new()); }
                    for c in &pre.pool_info.assets {
                        let exact = BigInt::from(c.amount.u128()) * BigInt::from(*amt) / BigInt::from(s0);
                        let paid = BigInt::from(delta(*u, &c.denom));
                        if paid > exact || paid < &exact - 1 { note(st, "C02_withdraw_bounds", &node.hist, &op, format!("{} paid {paid} exact {exact}", c.denom)); }
                    }
                }
                _ => {}
            }
            let mut hist = node.hist.clone();
            hist.push(op.clone());
            out.push(Node { snap: w.snapshot(), ghost, hist });
        }
        // redeemability of rejected withdraws
        out
    })
}

fn key(n: &Node) -> u64 {
    let mut h = std::collections::hash_map::DefaultHasher::new();
    n.snap.storage.data.hash(&mut h);
    n.ghost.hash(&mut h);
    h.finish()
}

pub fn run(depth: usize, zero_fee: bool) {
    std::panic::set_hook(Box::new(|_| {}));
    let w = seed(zero_fee);
    let init = Node { snap: w.snapshot(), ghost: Ghost::default(), hist: vec![] };
    let mut seen: HashSet<u64> = HashSet::new();
    seen.insert(key(&init));
    let mut frontier = vec![init];
    let mut total = Stats::default();
    let t0 = std::time::Instant::now();
    for d in 1..=depth {
        let results: Vec<(Vec<Node>, Stats)> = frontier.par_iter().map(|n| { let mut st = Stats::default(); let out = step(n, &mut st, zero_fee); (out, st) }).collect();
        let mut next = vec![];
        for (out, st) in results {
            total.transitions += st.transitions; total.accepted += st.accepted;
            for (k, v) in st.kinds { let e = total.kinds.entry(k).or_default(); e.0 += v.0; e.1 += v.1; }
            for (k, v) in st.viol { let e = total.viol.entry(k).or_insert((0, String::new())); e.0 += v.0; if e.1.is_empty() || v.1.len() < e.1.len() { e.1 = v.1; } }
            for n in out { if seen.insert(key(&n)) { next.push(n); } }
        }
        println!("depth {d}: frontier {} -> new {} | transitions {} accepted {} | {:?}", frontier.len(), next.len(), total.transitions, total.accepted, t0.elapsed());
        frontier = next;
    }
    println!("states {} transitions {} kinds(ok,rejected) {:?}", seen.len(), total.transitions, total.kinds);
    for (k, v) in &total.viol { println!("VIOL {k}: count {} e.g. {}", v.0, &v.1[..v.1.len().min(900)]); }
}
