//! small probes: C13 CP slippage predicate, C18 epoch grid, C16 fund combos, C09 penalty grid
use crate::world::*;
use cosmwasm_std::{coin, Coin, Decimal, Timestamp, Uint128, Uint64};
use cw_multi_test::Executor;
use mantra_dex_std::farm_manager as fm;
use mantra_dex_std::fee::{Fee, PoolFee};
use mantra_dex_std::pool_manager as pm;
use num_bigint::BigInt;

fn pf(p: u64, s: u64, b: u64) -> PoolFee {
    PoolFee { protocol_fee: Fee { share: Decimal::permille(p) }, swap_fee: Fee { share: Decimal::permille(s) }, burn_fee: Fee { share: Decimal::permille(b) }, extra_fees: vec![] }
}
fn bals() -> Vec<Coin> {
    vec![coin(10u128.pow(30), "uom"), coin(10u128.pow(30), "uusd"), coin(10u128.pow(30), "uusdc"), coin(10u128.pow(30), "uweth")]
}

pub fn c13_cp() {
    println!("== C13 CP swap slippage predicate vs exact");
    std::panic::set_hook(Box::new(|_| {}));
    let mut n = 0u64; let mut bad = 0u64; let mut shown = 0;
    for (p, s, b) in [(0u64, 0u64, 0u64), (1, 2, 1), (10, 20, 0)] {
        for (x, y) in [(1_000_000u128, 1_000_000u128), (1_000_000, 3_000_000), (12345, 999_999_937), (10u128.pow(12), 10u128.pow(9))] {
            let mut w = World::new(2, bals(), vec![coin(8888, "uom")], coin(1000, "uom"), coin(1000, "uusd"));
            let u0 = w.users[0].clone();
            w.app.execute_contract(u0.clone(), w.pool_manager.clone(), &pm::ExecuteMsg::CreatePool { asset_denoms: vec!["uom".into(), "uusd".into()], asset_decimals: vec![6, 6], pool_fees: pf(p, s, b), pool_type: pm::PoolType::ConstantProduct, pool_identifier: Some("a".into()) }, &[coin(8888, "uom"), coin(1000, "uusd")]).unwrap();
            w.app.execute_contract(u0.clone(), w.pool_manager.clone(), &pm::ExecuteMsg::ProvideLiquidity { liquidity_max_slippage: None, swap_max_slippage: None, receiver: None, pool_identifier: "o.a".into(), unlocking_duration: None, lock_position_identifier: None }, &[coin(x, "uom"), coin(y, "uusd")]).unwrap();
            let snap = w.snapshot();
            for tol in [None, Some(Decimal::zero()), Some(Decimal::permille(1)), Some(Decimal::percent(1)), Some(Decimal::percent(5)), Some(Decimal::percent(50)), Some(Decimal::percent(80)), Some(Decimal::percent(100)), Some(Decimal::percent(150))] {
                let eff = tol.unwrap_or(Decimal::percent(1)).min(Decimal::percent(50));
                for off in [1u128, 2, 10, 100, 1000, x / 1000, x / 200, x / 100, x / 99, x / 50, x / 20, x / 10, x / 2, x, x * 3] {
                    if off == 0 { continue; }
                    w.restore(&snap);
                    n += 1;
                    // exact predicate: gross = floor(y*off/(x+off)); ideal = floor(off*floor18(y/x)); spread = ideal - gross; fees on gross; total = spread+fees; net = gross - fees
                    let gross = BigInt::from(y) * BigInt::from(off) / BigInt::from(x + off);
                    let rate18 = BigInt::from(y) * BigInt::from(10u128.pow(18)) / BigInt::from(x);
                    let ideal = BigInt::from(off) * &rate18 / BigInt::from(10u128.pow(18));
                    let fee = |perm: u64| &gross * BigInt::from(perm) / BigInt::from(1000u32);
                    let fees = fee(p) + fee(s) + fee(b);
                    let net = &gross - &fees;
                    if ideal < gross { continue; }
                    let total = &ideal - &gross + &fees;
                    // reject iff total/(net+total) > eff  <=> total*1e18 > eff_atomics*(net+total) (floor18 of ratio compared) -> use exact band
                    let denom = &net + &total;
                    let u1 = w.users[1].clone(); let pma = w.pool_manager.clone();
                    let r = match std::panic::catch_unwind(std::panic::AssertUnwindSafe(|| w.app.execute_contract(u1, pma, &pm::ExecuteMsg::Swap { ask_asset_denom: "uusd".into(), belief_price: None, max_slippage: tol, receiver: None, pool_identifier: "o.a".into() }, &[coin(off, "uom")]))) { Ok(r) => r, Err(_) => Err(anyhow::anyhow!("TRAP")) };
                    let accepted = r.is_ok();
                    if denom == BigInt::from(0) { continue; }
                    let lhs = &total * BigInt::from(10u128.pow(18));
                    let rhs = BigInt::from(eff.atomics().u128()) * &denom;
                    // must-accept if lhs <= rhs ; must-reject if lhs >= rhs + denom (ratio floor18 > eff)
                    let must_accept = lhs <= rhs;
                    let must_reject = lhs >= &rhs + &denom;
                    let errtxt = r.as_ref().err().map(|e| e.root_cause().to_string()).unwrap_or_default();
                    if (must_accept && !accepted && errtxt.contains("Slippage")) || (must_reject && accepted) {
                        bad += 1;
                        if shown < 10 { shown += 1; println!("  MISMATCH fees=({p},{s},{b}) x={x} y={y} off={off} tol={tol:?} accepted={accepted} err={errtxt} total={total} net={net}"); }
                    }
                }
            }
        }
    }
    println!("cases={n} mismatches={bad}");
}

pub fn c18() {
    println!("== C18 epoch grid");
    let mut n = 0u64; let mut bad = 0u64; let mut traps = 0u64;
    std::panic::set_hook(Box::new(|_| {}));
    for g in [0u64, 1, 1_714_057_200, 1u64 << 34, 18_446_744_000] {
        for d in [86_399u64, 86_400, 86_401, 604_800, 1u64 << 40, 1u64 << 63] {
            let mut w = World::new(1, vec![coin(1, "uom")], vec![], coin(0, "uom"), coin(0, "uom"));
            // instantiate a second epoch manager at time <= g
            let mut b = w.app.block_info();
            b.time = Timestamp::from_seconds(g.min(GENESIS));
            w.app.set_block(b);
            let u0 = w.users[0].clone();
            let r = w.app.instantiate_contract(1, u0.clone(), &mantra_dex_std::epoch_manager::InstantiateMsg { owner: u0.to_string(), epoch_config: mantra_dex_std::epoch_manager::EpochConfig { duration: Uint64::new(d), genesis_epoch: Uint64::new(g) } }, &[], "e2", None);
            let em = match r { Ok(a) => { if d < 86_400 { bad += 1; println!("  short duration accepted d={d}"); } a } Err(_) => { if d >= 86_400 && g >= g.min(GENESIS) { bad += 1; println!("  valid config rejected g={g} d={d}"); } continue; } };
            let offsets: Vec<i128> = vec![-1, 0, 1, d as i128 - 1, d as i128, d as i128 + 1, 2 * d as i128 - 1, 2 * d as i128, 1000 * d as i128 - 1, 1000 * d as i128];
            for off in offsets {
                let now = g as i128 + off;
                if now < 0 || now > 18_446_744_073 { continue; }
                let now = now as u64;
                let mut b = w.app.block_info();
                b.time = Timestamp::from_seconds(now);
                w.app.set_block(b);
                n += 1;
                let r = std::panic::catch_unwind(std::panic::AssertUnwindSafe(|| w.app.wrap().query_wasm_smart::<mantra_dex_std::epoch_manager::EpochResponse>(em.clone(), &mantra_dex_std::epoch_manager::QueryMsg::CurrentEpoch {})));
                match r {
                    Err(_) => { traps += 1; }
                    Ok(Err(_)) => { if now >= g { let id = (now - g) / d; let start = g as u128 + id as u128 * d as u128; if start <= 18_446_744_073 { bad += 1; println!("  query failed at/after genesis g={g} d={d} now={now}"); } } }
                    Ok(Ok(e)) => {
                        if now < g { bad += 1; println!("  query ok before genesis"); continue; }
                        let id = (now - g) / d;
                        let start = g + id * d;
                        if e.epoch.id != id || e.epoch.start_time.seconds() != start || !(start <= now && (now as u128) < start as u128 + d as u128) { bad += 1; println!("  wrong epoch g={g} d={d} now={now} got {:?}", e.epoch); }
                    }
                }
            }
            for id in [0u64, 1, 7, u64::MAX / d.max(1) - 1, u64::MAX / d.max(1), u64::MAX / d.max(1) + 1, u64::MAX] {
                n += 1;
                let r = std::panic::catch_unwind(std::panic::AssertUnwindSafe(|| w.app.wrap().query_wasm_smart::<mantra_dex_std::epoch_manager::EpochResponse>(em.clone(), &mantra_dex_std::epoch_manager::QueryMsg::Epoch { id })));
                let exact = g as u128 + id as u128 * d as u128;
                match r {
                    Err(_) => { traps += 1; if exact <= 18_446_744_073 { bad += 1; println!("  trap on representable epoch g={g} d={d} id={id}"); } }
                    Ok(Err(_)) => { if exact <= 18_446_744_073 { bad += 1; println!("  error on representable epoch g={g} d={d} id={id}"); } }
                    Ok(Ok(e)) => { if e.epoch.start_time.seconds() as u128 != exact { bad += 1; println!("  WRAPPED/wrong start g={g} d={d} id={id} got {} exact {exact}", e.epoch.start_time.seconds()); } }
                }
            }
        }
    }
    println!("cases={n} bad={bad} traps={traps}");
}

pub fn c16() {
    println!("== C16 pool creation fund combinations");
    // (creation fee, tf fees)
    let configs: Vec<(Coin, Vec<Coin>)> = vec![
        (coin(1000, "uusd"), vec![coin(8888, "uom")]),
        (coin(1000, "uom"), vec![coin(8888, "uom")]),
        (coin(1000, "uusd"), vec![coin(8888, "uom"), coin(500, "uusd")]),
        (coin(1000, "uusd"), vec![coin(8888, "uom"), coin(77, "uweth")]),
        (coin(0, "uusd"), vec![coin(8888, "uom")]),
        (coin(1000, "uusd"), vec![]),
    ];
    let mut n = 0; let mut bad = 0;
    for (cfee, tf) in configs {
        // required total per denom
        let mut req: std::collections::BTreeMap<String, u128> = Default::default();
        if cfee.amount.u128() > 0 { *req.entry(cfee.denom.clone()).or_default() += cfee.amount.u128(); }
        for c in &tf { *req.entry(c.denom.clone()).or_default() += c.amount.u128(); }
        let exact: Vec<Coin> = req.iter().map(|(d, a)| coin(*a, d)).collect();
        let mut variants: Vec<(String, Vec<Coin>, bool)> = vec![("exact".into(), exact.clone(), true)];
        for i in 0..exact.len() {
            let mut v = exact.clone(); v[i].amount += Uint128::one(); variants.push((format!("plus1 {}", v[i].denom), v, false));
            let mut v = exact.clone(); v[i].amount -= Uint128::one(); if !v[i].amount.is_zero() { variants.push((format!("minus1 {}", v[i].denom), v, false)); }
            let mut v = exact.clone(); let rm = v.remove(i); variants.push((format!("missing {}", rm.denom), v, false));
        }
        let mut v = exact.clone(); v.push(coin(5, "zzz")); variants.push(("extra denom".into(), v, false));
        for (name, mut funds, should_ok) in variants {
            funds.sort_by(|a, b| a.denom.cmp(&b.denom));
            if funds.is_empty() && !should_ok { continue; }
            let mut b = bals(); b.push(coin(1000, "zzz"));
            let mut w = World::new(2, b, tf.clone(), coin(1000, "uom"), cfee.clone());
            let u1 = w.users[1].clone();
            let pre_pm: Vec<u128> = ["uom", "uusd", "uweth", "zzz"].iter().map(|d| w.balance(&w.pool_manager.clone(), d)).collect();
            let pre_fc = w.balance(&w.fee_collector.clone(), &cfee.denom);
            let pre_u: Vec<u128> = ["uom", "uusd", "uweth", "zzz"].iter().map(|d| w.balance(&u1, d)).collect();
            n += 1;
            let r = w.app.execute_contract(u1.clone(), w.pool_manager.clone(), &pm::ExecuteMsg::CreatePool { asset_denoms: vec!["uom".into(), "uusd".into()], asset_decimals: vec![6, 6], pool_fees: pf(1, 2, 1), pool_type: pm::PoolType::ConstantProduct, pool_identifier: None }, &funds);
            let post_pm: Vec<u128> = ["uom", "uusd", "uweth", "zzz"].iter().map(|d| w.balance(&w.pool_manager.clone(), d)).collect();
            let post_u: Vec<u128> = ["uom", "uusd", "uweth", "zzz"].iter().map(|d| w.balance(&u1, d)).collect();
            let fc_delta = w.balance(&w.fee_collector.clone(), &cfee.denom) - pre_fc;
            if r.is_ok() != should_ok { bad += 1; println!("  cfee={cfee} tf={tf:?} funds[{name}]={funds:?} ok={} expected {should_ok} {:?}", r.is_ok(), r.err().map(|e| e.root_cause().to_string())); continue; }
            if r.is_ok() {
                if post_pm != pre_pm { bad += 1; println!("  cfee={cfee} tf={tf:?}: pool manager kept funds {pre_pm:?}->{post_pm:?}"); }
                if fc_delta != cfee.amount.u128() { bad += 1; println!("  fee collector delta {fc_delta} != {cfee}"); }
                let paid: u128 = pre_u.iter().zip(&post_u).map(|(a, b)| a - b).sum();
                let want: u128 = exact.iter().map(|c| c.amount.u128()).sum();
                if paid != want { bad += 1; println!("  creator paid {paid} want {want}"); }
            } else if post_u != pre_u { bad += 1; println!("  rejected but creator balance changed"); }
        }
    }
    println!("cases={n} bad={bad}");
}

pub fn c09() {
    println!("== C09 penalty grid");
    std::panic::set_hook(Box::new(|_| {}));
    let mut traps = 0u64;
    let mut n = 0u64; let mut bad = 0u64; let mut shown = 0;
    for base in [0u64, 1, 10, 50, 90, 100] {
        let mut w = World::new(3, bals(), vec![coin(8888, "uom")], coin(1000, "uom"), coin(1000, "uusd"));
        let u0 = w.users[0].clone(); let u1 = w.users[1].clone();
        let fmaddr = w.farm_manager.clone();
        w.app.execute_contract(u0.clone(), fmaddr.clone(), &fm::ExecuteMsg::UpdateConfig { fee_collector_addr: None, epoch_manager_addr: None, pool_manager_addr: None, create_farm_fee: None, max_concurrent_farms: None, max_farm_epoch_buffer: None, min_unlocking_duration: None, max_unlocking_duration: None, farm_expiration_time: None, emergency_unlock_penalty: Some(Decimal::percent(base)) }, &[]).unwrap();
        w.app.execute_contract(u0.clone(), w.pool_manager.clone(), &pm::ExecuteMsg::CreatePool { asset_denoms: vec!["uom".into(), "uusd".into()], asset_decimals: vec![6, 6], pool_fees: pf(0, 0, 0), pool_type: pm::PoolType::ConstantProduct, pool_identifier: Some("a".into()) }, &[coin(8888, "uom"), coin(1000, "uusd")]).unwrap();
        w.app.execute_contract(u1.clone(), w.pool_manager.clone(), &pm::ExecuteMsg::ProvideLiquidity { liquidity_max_slippage: None, swap_max_slippage: None, receiver: None, pool_identifier: "o.a".into(), unlocking_duration: None, lock_position_identifier: None }, &[coin(10u128.pow(26), "uom"), coin(10u128.pow(26), "uusd")]).unwrap();
        let lp = w.lp("o.a");
        let snap0 = w.snapshot();
        for dur in [86_400u64, 86_401, 30 * 86_400, 100 * 86_400, 182 * 86_400, 31_556_926] {
            for amount in (1u128..40).chain([100, 999, 1000, 1001, 10u128.pow(6), 10u128.pow(12) + 1, 10u128.pow(18), 10u128.pow(24) - 1]) {
                w.restore(&snap0);
                let mp = |action| fm::ExecuteMsg::ManagePosition { action };
                w.app.execute_contract(u1.clone(), fmaddr.clone(), &mp(fm::PositionAction::Create { identifier: Some("x".into()), unlocking_duration: dur, receiver: None }), &[coin(amount, &lp)]).unwrap();
                let weight = w.app.wrap().query_wasm_smart::<fm::LpWeightResponse>(fmaddr.clone(), &fm::QueryMsg::LpWeight { address: u1.to_string(), denom: lp.clone(), epoch_id: 1 }).unwrap().lp_weight.u128();
                let snap_open = w.snapshot();
                w.app.execute_contract(u1.clone(), fmaddr.clone(), &mp(fm::PositionAction::Close { identifier: "u-x".into(), lp_asset: None }), &[]).unwrap();
                let snap_closed = w.snapshot();
                let mut last_pen: Option<u128> = None;
                // elapsed None = open
                let mut cases: Vec<Option<u64>> = vec![None];
                for e in [0u64, 1, dur / 4, dur / 2, dur - 1, dur, dur + 1] { cases.push(Some(e)); }
                for el in cases {
                    match el { None => w.restore(&snap_open), Some(e) => { w.restore(&snap_closed); w.advance(e); } }
                    let pre_u = w.balance(&u1, &lp); let pre_fc = w.balance(&w.fee_collector.clone(), &lp); let pre_fm = w.balance(&fmaddr, &lp);
                    n += 1;
                    let (u1c, fmc) = (u1.clone(), fmaddr.clone());
                    let r = match std::panic::catch_unwind(std::panic::AssertUnwindSafe(|| w.app.execute_contract(u1c, fmc, &mp(fm::PositionAction::Withdraw { identifier: "u-x".into(), emergency_unlock: Some(true) }), &[]))) { Ok(r) => r, Err(_) => { traps += 1; continue; } };
                    if let Err(e) = &r { bad += 1; if shown < 10 { shown += 1; println!("  emergency withdraw failed base={base}% dur={dur} amount={amount} el={el:?}: {}", e.root_cause()); } continue; }
                    let got = w.balance(&u1, &lp) - pre_u; let pen = w.balance(&w.fee_collector.clone(), &lp) - pre_fc; let out = pre_fm - w.balance(&fmaddr, &lp);
                    let rem = match el { None => dur, Some(e) => dur.saturating_sub(e) };
                    // exact: amount * min(0.9, base/100 * rem/dur * weight/amount)
                    // P* = min(0.9*amount, base*rem*weight/(100*dur))
                    let num = BigInt::from(base) * BigInt::from(rem) * BigInt::from(weight);
                    let den = BigInt::from(100u32) * BigInt::from(dur);
                    let uncapped_floor = &num / &den;
                    let cap_floor: BigInt = BigInt::from(amount) * BigInt::from(9u32) / BigInt::from(10u32);
                    let pstar = uncapped_floor.clone().min(cap_floor.clone());
                    let slack = BigInt::from(1u32) + BigInt::from(amount) / BigInt::from(10u128.pow(16));
                    let penb = BigInt::from(pen);
                    let mut why = vec![];
                    if got + pen != amount || out != amount { why.push(format!("conservation got {got} pen {pen} out {out}")); }
                    if penb > pstar { why.push(format!("penalty {pen} above exact {pstar}")); }
                    if penb < &pstar - &slack { why.push(format!("penalty {pen} below exact {pstar} - slack {slack}")); }
                    if let (Some(lp_), Some(_)) = (last_pen, el) { if pen > lp_ { why.push(format!("penalty increased over time {lp_} -> {pen}")); } }
                    if let Some(e) = el { if e >= dur && pen != 0 { why.push("penalty after unlock".into()); } }
                    if el.is_some() { last_pen = Some(pen); }
                    if !why.is_empty() { bad += 1; if shown < 12 { shown += 1; println!("  base={base}% dur={dur} amount={amount} weight={weight} el={el:?}: {why:?}"); } }
                }
            }
        }
    }
    println!("cases={n} bad={bad} traps={traps}");
}
