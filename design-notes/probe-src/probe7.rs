//! farm lifecycle BFS: C11 conservation/authorisation/limit + C05 custody, across fee configurations
use crate::world::*;
use cosmwasm_std::{coin, Addr, Coin, Decimal, Timestamp};
use cw_multi_test::Executor;
use mantra_dex_std::constants::MONTH_IN_SECONDS;
use mantra_dex_std::farm_manager as fm;
use mantra_dex_std::pool_manager as pm;
use rayon::prelude::*;
use std::cell::RefCell;
use std::collections::{BTreeMap, HashSet};
use std::hash::{Hash, Hasher};

const DENOMS: [&str; 4] = ["uom", "uusd", "uusdc", "uweth"];

#[derive(Clone, Debug, PartialEq, Eq, Hash)]
pub enum Funds { Exact, OverpaidFee, ExtraCoin, MissingFee }

#[derive(Clone, Debug, PartialEq, Eq, Hash)]
pub enum Op {
    CreateFarm { u: usize, funds: Funds },
    ExpandFarm { u: usize, id: String, epochs: u128 },
    CloseFarm { u: usize, id: String },
    CreatePos { u: usize },
    Claim { u: usize },
    Advance,
    JumpExpiry { id: String, off: i64 },
}

#[derive(Clone)]
pub struct Node { pub snap: Snapshot, pub hist: Vec<Op> }

thread_local! { static WORLD: RefCell<Option<World>> = RefCell::new(None); }

fn fee_cfg(cfg: usize) -> Coin {
    match cfg { 0 => coin(0, "uom"), 1 => coin(0, "uusdc"), 2 => coin(1000, "uom"), _ => coin(1000, "uusdc") }
}

fn seed(cfg: usize) -> (World, String) {
    let mut w = World::new(3, DENOMS.iter().map(|d| coin(10u128.pow(30), *d)).collect(), vec![coin(8888, "uom")], fee_cfg(cfg), coin(1000, "uusd"));
    let u0 = w.users[0].clone();
    let zf = mantra_dex_std::fee::Fee { share: Decimal::zero() };
    w.app.execute_contract(u0.clone(), w.pool_manager.clone(), &pm::ExecuteMsg::CreatePool { asset_denoms: vec!["uom".into(), "uusd".into()], asset_decimals: vec![6, 6], pool_fees: mantra_dex_std::fee::PoolFee { protocol_fee: zf.clone(), swap_fee: zf.clone(), burn_fee: zf.clone(), extra_fees: vec![] }, pool_type: pm::PoolType::ConstantProduct, pool_identifier: Some("a".into()) }, &[coin(8888, "uom"), coin(1000, "uusd")]).unwrap();
    for i in 0..3 {
        let u = w.users[i].clone();
        w.app.execute_contract(u, w.pool_manager.clone(), &pm::ExecuteMsg::ProvideLiquidity { liquidity_max_slippage: None, swap_max_slippage: None, receiver: None, pool_identifier: "o.a".into(), unlocking_duration: None, lock_position_identifier: None }, &[coin(10_000_000, "uom"), coin(10_000_000, "uusd")]).unwrap();
    }
    let lp = w.lp("o.a");
    (w, lp)
}

fn cur_epoch(w: &World) -> u64 { (w.app.block_info().time.seconds() - GENESIS) / 86400 }
fn farms(w: &World) -> Vec<fm::Farm> {
    let r: fm::FarmsResponse = w.app.wrap().query_wasm_smart(w.farm_manager.clone(), &fm::QueryMsg::Farms { filter_by: None, start_after: None, limit: Some(50) }).unwrap();
    r.farms
}
fn expiry_instant(f: &fm::Farm) -> u64 { GENESIS + (f.preliminary_end_epoch + 1) * 86400 + MONTH_IN_SECONDS }
fn is_expired(f: &fm::Farm, now: u64) -> bool { f.farm_asset.amount == f.claimed_amount || expiry_instant(f) < now }

fn accounts(w: &World) -> Vec<Addr> { let mut v = w.users.clone(); v.push(w.farm_manager.clone()); v.push(w.fee_collector.clone()); v }
fn bal_table(w: &World, lp: &str) -> BTreeMap<(usize, String), u128> {
    let mut m = BTreeMap::new();
    for (i, a) in accounts(w).iter().enumerate() { for d in DENOMS.iter().map(|s| s.to_string()).chain([lp.to_string()]) { m.insert((i, d.clone()), w.balance(a, &d)); } }
    m
}

fn enabled(w: &World) -> Vec<Op> {
    let mut ops = vec![Op::Advance];
    let fs = farms(w);
    for u in 1..3usize {
        for f in [Funds::Exact, Funds::OverpaidFee, Funds::ExtraCoin, Funds::MissingFee] { ops.push(Op::CreateFarm { u, funds: f }); }
        for f in &fs { ops.push(Op::ExpandFarm { u, id: f.identifier.clone(), epochs: 2 }); ops.push(Op::CloseFarm { u, id: f.identifier.clone() }); }
    }
    for f in &fs { ops.push(Op::CloseFarm { u: 0, id: f.identifier.clone() }); }
    if let Some(f) = fs.first() { for off in [-1i64, 0, 1] { ops.push(Op::JumpExpiry { id: f.identifier.clone(), off }); } }
    ops.push(Op::CreatePos { u: 1 });
    ops.push(Op::Claim { u: 1 });
    ops
}

fn farm_funds(cfg: usize, shape: &Funds) -> Vec<Coin> {
    let fee = fee_cfg(cfg);
    let r = 4000u128;
    let mut m: BTreeMap<String, u128> = BTreeMap::new();
    *m.entry("uusdc".into()).or_default() += r;
    if fee.amount.u128() > 0 && *shape != Funds::MissingFee { *m.entry(fee.denom.clone()).or_default() += fee.amount.u128(); }
    match shape {
        Funds::OverpaidFee => { *m.entry(fee.denom.clone()).or_default() += 5; }
        Funds::ExtraCoin => { *m.entry("uweth".into()).or_default() += 7; }
        _ => {}
    }
    m.into_iter().filter(|(_, a)| *a > 0).map(|(d, a)| coin(a, d)).collect()
}

fn apply(w: &mut World, lp: &str, cfg: usize, op: &Op) -> anyhow::Result<cw_multi_test::AppResponse> {
    let fmaddr = w.farm_manager.clone();
    match op {
        Op::Advance => { w.advance(86400); Ok(Default::default()) }
        Op::JumpExpiry { id, off } => {
            let f = farms(w).into_iter().find(|f| &f.identifier == id).unwrap();
            let t = (expiry_instant(&f) as i64 + off) as u64;
            let mut b = w.app.block_info();
            if t <= b.time.seconds() { anyhow::bail!("past") }
            b.time = Timestamp::from_seconds(t); b.height += 1; w.app.set_block(b);
            Ok(Default::default())
        }
        Op::CreateFarm { u, funds } => {
            let cur = cur_epoch(w);
            w.app.execute_contract(w.users[*u].clone(), fmaddr, &fm::ExecuteMsg::ManageFarm { action: fm::FarmAction::Create { params: fm::FarmParams { lp_denom: lp.to_string(), start_epoch: Some(cur + 1), preliminary_end_epoch: Some(cur + 5), curve: None, farm_asset: coin(4000, "uusdc"), farm_identifier: None } } }, &farm_funds(cfg, funds))
        }
        Op::ExpandFarm { u, id, epochs } => {
            let f = farms(w).into_iter().find(|f| &f.identifier == id).unwrap();
            let amt = f.emission_rate.u128() * epochs;
            w.app.execute_contract(w.users[*u].clone(), fmaddr, &fm::ExecuteMsg::ManageFarm { action: fm::FarmAction::Expand { params: fm::FarmParams { lp_denom: lp.to_string(), start_epoch: None, preliminary_end_epoch: None, curve: None, farm_asset: coin(amt, "uusdc"), farm_identifier: Some(id.clone()) } } }, &[coin(amt, "uusdc")])
        }
        Op::CloseFarm { u, id } => w.app.execute_contract(w.users[*u].clone(), fmaddr, &fm::ExecuteMsg::ManageFarm { action: fm::FarmAction::Close { farm_identifier: id.clone() } }, &[]),
        Op::CreatePos { u } => w.app.execute_contract(w.users[*u].clone(), fmaddr, &fm::ExecuteMsg::ManagePosition { action: fm::PositionAction::Create { identifier: None, unlocking_duration: 86400, receiver: None } }, &[coin(1000, lp)]),
        Op::Claim { u } => w.app.execute_contract(w.users[*u].clone(), fmaddr, &fm::ExecuteMsg::Claim { until_epoch: None }, &[]),
    }
}

#[derive(Default, Debug, Clone)]
pub struct Stats { pub transitions: u64, pub accepted: u64, pub viol: BTreeMap<String, (u64, String)>, pub kinds: BTreeMap<String, (u64, u64)> }
fn note(st: &mut Stats, kind: &str, hist: &[Op], op: &Op, detail: String) {
    let e = st.viol.entry(kind.to_string()).or_insert((0, String::new()));
    e.0 += 1;
    if e.1.is_empty() { e.1 = format!("hist={:?} op={:?} :: {}", hist, op, detail); }
}

fn step(node: &Node, st: &mut Stats, cfg: usize, lp: &str) -> Vec<Node> {
    WORLD.with(|cell| {
        let mut slot = cell.borrow_mut();
        if slot.is_none() { *slot = Some(seed(cfg).0); }
        let w = slot.as_mut().unwrap();
        w.restore(&node.snap);
        let ops = enabled(w);
        let pre_f = farms(w);
        let pre_b = bal_table(w, lp);
        let now0 = w.app.block_info().time.seconds();
        let fee = fee_cfg(cfg);
        let fmi = 3usize; let fci = 4usize;
        let mut out = vec![];
        for op in ops {
            w.restore(&node.snap);
            st.transitions += 1;
            let r = std::panic::catch_unwind(std::panic::AssertUnwindSafe(|| apply(w, lp, cfg, &op)));
            let ok = matches!(r, Ok(Ok(_)));
            let kind = format!("{:?}", op).split(' ').next().unwrap().to_string();
            let e = st.kinds.entry(kind).or_default(); if ok { e.0 += 1 } else { e.1 += 1 }
            let post_f = farms(w); let post_b = bal_table(w, lp);
            let now = w.app.block_info().time.seconds();
            let errtxt = match &r { Ok(Err(e)) => e.root_cause().to_string(), Err(_) => "TRAP".into(), _ => String::new() };
            if !ok {
                if post_b != pre_b || post_f != pre_f { note(st, "rejected_changed_state", &node.hist, &op, errtxt.clone()); }
            }
            // expected deltas
            let mut exp: BTreeMap<(usize, String), i128> = BTreeMap::new();
            let mut add = |acc: usize, d: &str, x: i128| { *exp.entry((acc, d.to_string())).or_default() += x; };
            let owner_idx = |a: &Addr| w.users.iter().position(|u| u == a).unwrap();
            match &op {
                Op::CreateFarm { u, funds } => {
                    let live: Vec<&fm::Farm> = pre_f.iter().filter(|f| !is_expired(f, now0)).collect();
                    let expired: Vec<&fm::Farm> = pre_f.iter().filter(|f| is_expired(f, now0)).collect();
                    let same = fee.denom == "uusdc";
                    let funds_ok = match funds {
                        Funds::Exact => true,
                        Funds::OverpaidFee => !same && fee.amount.u128() > 0, // refund path only when a fee is charged in another denom
                        Funds::ExtraCoin => false,
                        Funds::MissingFee => fee.amount.u128() == 0,
                    };
                    // zero fee in another denom + "overpaid fee" means an unrelated 5-unit coin of the fee denom: must be refused
                    let should = funds_ok && live.len() < 2;
                    if ok != should { note(st, if ok { "C11_create_accepted_unexpectedly" } else { "C11_create_rejected_unexpectedly" }, &node.hist, &op, format!("live={} cfg fee={} err={}", live.len(), fee, errtxt)); }
                    if ok {
                        add(*u, "uusdc", -4000); add(fmi, "uusdc", 4000);
                        if fee.amount.u128() > 0 { add(*u, &fee.denom, -(fee.amount.u128() as i128)); add(fci, &fee.denom, fee.amount.u128() as i128); }
                        for f in expired { let rem = (f.farm_asset.amount.u128() - f.claimed_amount.u128()) as i128; add(owner_idx(&f.owner), &f.farm_asset.denom, rem); add(fmi, &f.farm_asset.denom, -rem); }
                        // new farm recorded with full budget
                        let newf: Vec<&fm::Farm> = post_f.iter().filter(|f| !pre_f.iter().any(|p| p.identifier == f.identifier)).collect();
                        if newf.len() != 1 || newf[0].farm_asset.amount.u128() != 4000 || newf[0].claimed_amount.u128() != 0 || newf[0].owner != w.users[*u] { note(st, "C11_create_record", &node.hist, &op, format!("{:?}", newf)); }
                    }
                }
                Op::ExpandFarm { u, id, epochs } => {
                    let f = pre_f.iter().find(|f| &f.identifier == id).unwrap();
                    let should = f.owner == w.users[*u] && cur_epoch_at(now0) < f.preliminary_end_epoch && !is_expired(f, now0);
                    if ok != should { note(st, if ok { "C11_expand_accepted_unexpectedly" } else { "C11_expand_rejected_unexpectedly" }, &node.hist, &op, errtxt.clone()); }
                    if ok {
                        let amt = (f.emission_rate.u128() * epochs) as i128;
                        add(*u, "uusdc", -amt); add(fmi, "uusdc", amt);
                        let g = post_f.iter().find(|g| &g.identifier == id).unwrap();
                        if g.farm_asset.amount.u128() != f.farm_asset.amount.u128() + amt as u128 || g.preliminary_end_epoch != f.preliminary_end_epoch + *epochs as u64 || g.claimed_amount != f.claimed_amount { note(st, "C11_expand_record", &node.hist, &op, format!("{:?} -> {:?}", f, g)); }
                    }
                }
                Op::CloseFarm { u, id } => {
                    let f = pre_f.iter().find(|f| &f.identifier == id).unwrap();
                    let should = f.owner == w.users[*u] || *u == 0;
                    if ok != should { note(st, "C11_close_auth", &node.hist, &op, errtxt.clone()); }
                    if ok {
                        let rem = (f.farm_asset.amount.u128() - f.claimed_amount.u128()) as i128;
                        add(owner_idx(&f.owner), "uusdc", rem); add(fmi, "uusdc", -rem);
                        if post_f.iter().any(|g| &g.identifier == id) { note(st, "C11_close_not_removed", &node.hist, &op, String::new()); }
                    }
                }
                Op::CreatePos { u } => { if ok { add(*u, lp, -1000); add(fmi, lp, 1000); } }
                Op::Claim { u } => {
                    if ok {
                        let paid = post_b[&(*u, "uusdc".to_string())] as i128 - pre_b[&(*u, "uusdc".to_string())] as i128;
                        add(*u, "uusdc", paid); add(fmi, "uusdc", -paid);
                        let dc: i128 = post_f.iter().map(|g| g.claimed_amount.u128() as i128).sum::<i128>() - pre_f.iter().filter(|p| post_f.iter().any(|g| g.identifier == p.identifier)).map(|g| g.claimed_amount.u128() as i128).sum::<i128>();
                        if dc != paid { note(st, "C05_claimed_ne_paid", &node.hist, &op, format!("claimed delta {dc} paid {paid}")); }
                    }
                }
                _ => {}
            }
            if ok {
                for ((acc, d), v) in post_b.iter() {
                    let delta = *v as i128 - pre_b[&(*acc, d.clone())] as i128;
                    let want = exp.get(&(*acc, d.clone())).copied().unwrap_or(0);
                    if delta != want { note(st, "C11_balance_delta", &node.hist, &op, format!("acc {acc} {d}: delta {delta} expected {want}")); }
                }
                st.accepted += 1;
                // state invariants
                let live = post_f.iter().filter(|f| !is_expired(f, now)).count();
                if live > 2 { note(st, "C11_limit", &node.hist, &op, format!("{live} unexpired farms")); }
                let need: u128 = post_f.iter().map(|f| f.farm_asset.amount.u128() - f.claimed_amount.u128()).sum();
                if post_b[&(fmi, "uusdc".to_string())] < need { note(st, "C05_custody", &node.hist, &op, format!("bal {} need {need}", post_b[&(fmi, "uusdc".to_string())])); }
                let mut hist = node.hist.clone(); hist.push(op.clone());
                out.push(Node { snap: w.snapshot(), hist });
            }
        }
        out
    })
}
fn cur_epoch_at(now: u64) -> u64 { (now - GENESIS) / 86400 }

fn key(n: &Node) -> u64 { let mut h = std::collections::hash_map::DefaultHasher::new(); n.snap.storage.data.hash(&mut h); n.snap.block.time.nanos().hash(&mut h); h.finish() }

pub fn run(depth: usize) {
    std::panic::set_hook(Box::new(|_| {}));
    for cfg in 0..4usize {
        WORLD.with(|c| *c.borrow_mut() = None);
        let (w, lp) = seed(cfg);
        let init = Node { snap: w.snapshot(), hist: vec![] };
        let mut seen: HashSet<u64> = HashSet::new(); seen.insert(key(&init));
        let mut frontier = vec![init];
        let mut total = Stats::default();
        let t0 = std::time::Instant::now();
        // rayon pool threads keep thread-local worlds of the previous cfg: use a fresh pool per cfg
        let pool = rayon::ThreadPoolBuilder::new().num_threads(16).build().unwrap();
        for d in 1..=depth {
            let results: Vec<(Vec<Node>, Stats)> = pool.install(|| frontier.par_iter().map(|n| { let mut st = Stats::default(); let out = step(n, &mut st, cfg, &lp); (out, st) }).collect());
            let mut next = vec![];
            for (out, st) in results {
                total.transitions += st.transitions; total.accepted += st.accepted;
                for (k, v) in st.kinds { let e = total.kinds.entry(k).or_default(); e.0 += v.0; e.1 += v.1; }
                for (k, v) in st.viol { let e = total.viol.entry(k).or_insert((0, String::new())); e.0 += v.0; if e.1.is_empty() || v.1.len() < e.1.len() { e.1 = v.1; } }
                for n in out { if seen.insert(key(&n)) { next.push(n); } }
            }
            println!("cfg {cfg} fee {} depth {d}: frontier {} -> new {} | transitions {} | {:?}", fee_cfg(cfg), frontier.len(), next.len(), total.transitions, t0.elapsed());
            frontier = next;
        }
        println!("cfg {cfg}: states {} transitions {} kinds {:?}", seen.len(), total.transitions, total.kinds);
        for (k, v) in &total.viol { println!("  VIOL {k}: count {} e.g. {}", v.0, &v.1[..v.1.len().min(700)]); }
    }
}
