//! C17 toggles (twin), C14 twin-run, C20 fault enumeration on the pool universe
use crate::probe5::{apply, bal_table, enabled, pools, seed, Op};
use crate::world::*;
use cosmwasm_std::{coin, Decimal};
use cw_multi_test::Executor;
use mantra_dex_std::pool_manager as pm;
use std::collections::BTreeSet;

fn toggle(w: &mut World, pool: &str, s: bool, d: bool, wd: bool) {
    let u0 = w.users[0].clone();
    w.app.execute_contract(u0, w.pool_manager.clone(), &pm::ExecuteMsg::UpdateConfig { fee_collector_addr: None, farm_manager_addr: None, pool_creation_fee: None, feature_toggle: Some(pm::FeatureToggle { pool_identifier: pool.into(), withdrawals_enabled: Some(wd), deposits_enabled: Some(d), swaps_enabled: Some(s) }) }, &[]).unwrap();
}

fn needs(op: &Op) -> BTreeSet<(String, &'static str)> {
    let mut s = BTreeSet::new();
    match op {
        Op::Swap { pool, .. } => { s.insert((pool.clone(), "swap")); }
        Op::Route { hops, .. } => { for h in hops { s.insert((h.2.clone(), "swap")); } }
        Op::Provide { pool, funds, .. } => { s.insert((pool.clone(), "deposit")); if funds.len() == 1 { s.insert((pool.clone(), "swap")); } }
        Op::Withdraw { pool, .. } => { s.insert((pool.clone(), "withdraw")); }
        Op::Donate { .. } => {}
    }
    s
}

fn observe(w: &World) -> (Vec<(String, Vec<cosmwasm_std::Coin>, cosmwasm_std::Coin)>, std::collections::BTreeMap<(usize, String), u128>) {
    let ps = pools(w);
    let lps: Vec<String> = ps.iter().map(|p| p.pool_info.lp_denom.clone()).collect();
    (ps.iter().map(|p| (p.pool_info.pool_identifier.clone(), p.pool_info.assets.clone(), p.total_share.clone())).collect(), bal_table(w, &lps))
}

pub fn c17() {
    println!("== C17 toggles vs twin");
    std::panic::set_hook(Box::new(|_| {}));
    let mut w = seed(false);
    // give user1/user2 some LP and a deeper state: user1 provides to both pools
    let base_ops = enabled(&w);
    for op in base_ops.iter().filter(|o| matches!(o, Op::Provide { u: 1, lock: None, funds, .. } if funds.len() > 1)).take(4) { let _ = apply(&mut w, op); }
    let base = w.snapshot();
    let ops = enabled(&w);
    let mut n = 0u64; let mut bad = 0u64; let mut blocked = 0u64; let mut same = 0u64; let mut shown = 0;
    for pool in ["o.cp", "o.ss"] {
        for mask in 0..8u8 {
            let (s, d, wd) = (mask & 1 != 0, mask & 2 != 0, mask & 4 != 0);
            for op in &ops {
                // twin
                w.restore(&base);
                let rt = std::panic::catch_unwind(std::panic::AssertUnwindSafe(|| apply(&mut w, op))).map(|r| r.map(|_| ()).map_err(|e| e.root_cause().to_string())).unwrap_or(Err("TRAP".into()));
                let ot = observe(&w);
                // toggled
                w.restore(&base);
                toggle(&mut w, pool, s, d, wd);
                let rx = std::panic::catch_unwind(std::panic::AssertUnwindSafe(|| apply(&mut w, op))).map(|r| r.map(|_| ()).map_err(|e| e.root_cause().to_string())).unwrap_or(Err("TRAP".into()));
                let ox = observe(&w);
                n += 1;
                let nd = needs(op);
                let must_block = nd.iter().any(|(p, f)| p == pool && match *f { "swap" => !s, "deposit" => !d, _ => !wd });
                if must_block {
                    blocked += 1;
                    // must be rejected with state == base-with-toggle (no change): compare to twin *pre* state i.e. balances of base
                    w.restore(&base);
                    let ob = observe(&w);
                    if rx.is_ok() || ox != ob { bad += 1; if shown < 10 { shown += 1; println!("  NOT BLOCKED pool={pool} swaps={s} deposits={d} withdrawals={wd} op={op:?} res={rx:?}"); } }
                } else {
                    same += 1;
                    if rx.is_ok() != rt.is_ok() || ox != ot { bad += 1; if shown < 10 { shown += 1; println!("  DIFFERS FROM TWIN pool={pool} swaps={s} deposits={d} withdrawals={wd} op={op:?} twin={rt:?} toggled={rx:?}"); } }
                }
            }
        }
    }
    println!("cases={n} must_block={blocked} must_equal_twin={same} bad={bad}");
}

pub fn c14() {
    println!("== C14 single-asset deposit vs swap-half-then-deposit");
    std::panic::set_hook(Box::new(|_| {}));
    for zero_fee in [false, true] {
        let mut w = seed(zero_fee);
        let base0 = w.snapshot();
        // states: base and each state after one op
        let mut states = vec![base0.clone()];
        for op in enabled(&w) { w.restore(&base0); if matches!(std::panic::catch_unwind(std::panic::AssertUnwindSafe(|| apply(&mut w, &op))), Ok(Ok(_))) { states.push(w.snapshot()); } }
        let mut n = 0u64; let mut bad = 0u64; let mut rej = 0u64; let mut shown = 0;
        for st in &states {
            for (pool, denoms) in [("o.cp", ["uom", "uusd"]), ("o.ss", ["uusd", "uusdc"])] {
                for d in denoms {
                    for amt in [2u128, 3, 100_000, 100_001, 3_000_001] {
                        for lock in [None, Some(86400u64)] {
                            n += 1;
                            let op = Op::Provide { u: 1, pool: pool.into(), funds: vec![(d.to_string(), amt)], lock };
                            w.restore(st);
                            let ra = std::panic::catch_unwind(std::panic::AssertUnwindSafe(|| apply(&mut w, &op))).map(|r| r.is_ok()).unwrap_or(false);
                            let oa = observe(&w);
                            // buffer absent
                            let has_buf = w.app.storage().data.keys().any(|k| String::from_utf8_lossy(k).contains("single_side_liquidity_provision_buffer"));
                            if has_buf { bad += 1; println!("  BUFFER LEFT after {op:?}"); }
                            // manual
                            w.restore(st);
                            let p = pools(&w).into_iter().find(|p| p.pool_info.pool_identifier == pool).unwrap();
                            let other = p.pool_info.assets.iter().map(|c| c.denom.clone()).find(|x| x != d).unwrap();
                            let half = amt / 2;
                            let u1 = w.users[1].clone();
                            let before = w.balance(&u1, &other);
                            let rs = std::panic::catch_unwind(std::panic::AssertUnwindSafe(|| w.app.execute_contract(u1.clone(), w.pool_manager.clone(), &pm::ExecuteMsg::Swap { ask_asset_denom: other.clone(), belief_price: None, max_slippage: Some(Decimal::percent(50)), receiver: None, pool_identifier: pool.into() }, &[coin(half, d)]))).map(|r| r.is_ok()).unwrap_or(false);
                            let mut rb = false;
                            if rs {
                                let got = w.balance(&u1, &other) - before;
                                if got > 0 {
                                    let op2 = Op::Provide { u: 1, pool: pool.into(), funds: vec![(d.to_string(), half), (other.clone(), got)], lock };
                                    rb = std::panic::catch_unwind(std::panic::AssertUnwindSafe(|| apply(&mut w, &op2))).map(|r| r.is_ok()).unwrap_or(false);
                                }
                            }
                            if !rb { w.restore(st); }
                            let ob = observe(&w);
                            if ra != rb { if p.pool_info.assets.len() > 2 && !ra { rej += 1; continue; } bad += 1; if shown < 10 { shown += 1; println!("  OUTCOME differs single={ra} manual={rb} {op:?}"); } continue; }
                            if !ra { rej += 1; continue; }
                            // compare pools
                            if oa.0 != ob.0 { bad += 1; if shown < 10 { shown += 1; println!("  POOLS differ {op:?}\n    single {:?}\n    manual {:?}", oa.0, ob.0); } continue; }
                            // balances: all equal except user1's deposit denom (+odd unit) and pool manager's (odd unit)
                            for (k, va) in &oa.1 {
                                let vb = ob.1[k];
                                let odd = amt % 2;
                                let expect_diff: i128 = if k.1 == d && k.0 == 1 { -(odd as i128) } else if k.1 == d && k.0 == 3 { odd as i128 } else { 0 };
                                if *va as i128 - vb as i128 != expect_diff { bad += 1; if shown < 10 { shown += 1; println!("  BALANCE differs acc {} {}: single {va} manual {vb} ({op:?})", k.0, k.1); } }
                            }
                        }
                    }
                }
            }
        }
        println!("zero_fee={zero_fee}: states={} cases={n} rejected_both={rej} bad={bad}", states.len());
    }
}

pub fn c20() {
    println!("== C20 fault enumeration over pool-universe ops (depth <= 1 states)");
    std::panic::set_hook(Box::new(|_| {}));
    let mut w = seed(false);
    let base0 = w.snapshot();
    let mut states = vec![base0.clone()];
    for op in enabled(&w) { w.restore(&base0); if matches!(std::panic::catch_unwind(std::panic::AssertUnwindSafe(|| apply(&mut w, &op))), Ok(Ok(_))) { states.push(w.snapshot()); } }
    let mut msgs = 0u64; let mut injected = 0u64; let mut bad = 0u64; let mut maxcalls = 0u32; let mut hist = std::collections::BTreeMap::<u32, u64>::new();
    for st in &states {
        w.restore(st);
        let ops = enabled(&w);
        for op in ops {
            w.restore(st);
            w.plan.reset(0);
            let ok = matches!(std::panic::catch_unwind(std::panic::AssertUnwindSafe(|| apply(&mut w, &op))), Ok(Ok(_)));
            let n = w.plan.counter.get();
            msgs += 1;
            *hist.entry(n).or_default() += 1;
            maxcalls = maxcalls.max(n);
            if !ok { if w.snapshot().storage != st.storage { bad += 1; println!("  rejected op changed state {op:?}"); } continue; }
            for k in 1..=n {
                w.restore(st);
                w.plan.reset(k);
                let r = std::panic::catch_unwind(std::panic::AssertUnwindSafe(|| apply(&mut w, &op)));
                w.plan.reset(0);
                injected += 1;
                let okk = matches!(r, Ok(Ok(_)));
                if okk || w.snapshot().storage != st.storage { bad += 1; println!("  FAULT k={k}/{n} not atomic: ok={okk} {op:?}"); }
            }
        }
    }
    println!("states={} messages={msgs} injected_faults={injected} max_env_calls={maxcalls} calls_hist={hist:?} bad={bad}", states.len());
}
