//! C15 authorisation matrix over the ownership state machine of all four contracts
use crate::world::*;
use cosmwasm_std::{coin, Addr, Coin, Decimal, Uint64};
use cw_multi_test::Executor;
use cw_ownable::{Action, Expiration};
use mantra_dex_std::{epoch_manager as em, farm_manager as fm, fee_collector as fc, pool_manager as pm};
use std::collections::{BTreeSet, VecDeque};

#[derive(Clone, Debug, PartialEq, Eq, Hash, PartialOrd, Ord)]
enum OwnAct { Transfer(usize, u8), Accept, Renounce } // expiry: 0 none, 1 future, 2 past(at time)

fn own_msg<T>(c: usize, a: &Action) -> (usize, Vec<u8>) where T: Sized { let _ = c; (0, serde_json::to_vec(a).unwrap()) }

fn exec_own(w: &mut World, c: usize, sender: &Addr, a: Action, funds: &[Coin]) -> bool {
    let addr = [w.pool_manager.clone(), w.farm_manager.clone(), w.epoch_manager.clone(), w.fee_collector.clone()][c].clone();
    let r = match c {
        0 => w.app.execute_contract(sender.clone(), addr, &pm::ExecuteMsg::UpdateOwnership(a), funds),
        1 => w.app.execute_contract(sender.clone(), addr, &fm::ExecuteMsg::UpdateOwnership(a), funds),
        2 => w.app.execute_contract(sender.clone(), addr, &em::ExecuteMsg::UpdateOwnership(a), funds),
        _ => w.app.execute_contract(sender.clone(), addr, &fc::ExecuteMsg::UpdateOwnership(a), funds),
    };
    r.is_ok()
}

fn exec_cfg(w: &mut World, c: usize, variant: usize, sender: &Addr, funds: &[Coin]) -> Option<bool> {
    let r = match c {
        0 => {
            let (mut a, mut b, mut f, mut t) = (None, None, None, None);
            match variant { 0 => a = Some(w.users[2].to_string()), 1 => b = Some(w.users[2].to_string()), 2 => f = Some(coin(5, "uom")), 3 => t = Some(pm::FeatureToggle { pool_identifier: "o.a".into(), withdrawals_enabled: Some(false), deposits_enabled: None, swaps_enabled: None }), 4 => {}, _ => return None }
            w.app.execute_contract(sender.clone(), w.pool_manager.clone(), &pm::ExecuteMsg::UpdateConfig { fee_collector_addr: a, farm_manager_addr: b, pool_creation_fee: f, feature_toggle: t }, funds)
        }
        1 => {
            let mut m = fm::ExecuteMsg::UpdateConfig { fee_collector_addr: None, epoch_manager_addr: None, pool_manager_addr: None, create_farm_fee: None, max_concurrent_farms: None, max_farm_epoch_buffer: None, min_unlocking_duration: None, max_unlocking_duration: None, farm_expiration_time: None, emergency_unlock_penalty: None };
            if let fm::ExecuteMsg::UpdateConfig { fee_collector_addr, epoch_manager_addr, pool_manager_addr, create_farm_fee, max_concurrent_farms, max_farm_epoch_buffer, min_unlocking_duration, max_unlocking_duration, farm_expiration_time, emergency_unlock_penalty } = &mut m {
                match variant { 0 => *fee_collector_addr = Some(w.users[2].to_string()), 1 => *epoch_manager_addr = Some(w.users[2].to_string()), 2 => *pool_manager_addr = Some(w.users[2].to_string()), 3 => *create_farm_fee = Some(coin(1, "uom")), 4 => *max_concurrent_farms = Some(7), 5 => *max_farm_epoch_buffer = Some(3), 6 => *min_unlocking_duration = Some(86401), 7 => *max_unlocking_duration = Some(31_000_000), 8 => *farm_expiration_time = Some(3_000_000), 9 => *emergency_unlock_penalty = Some(Decimal::percent(3)), 10 => {}, _ => return None }
            }
            w.app.execute_contract(sender.clone(), w.farm_manager.clone(), &m, funds)
        }
        2 => {
            let cfg = match variant { 0 => Some(em::EpochConfig { duration: Uint64::new(90_000), genesis_epoch: Uint64::new(GENESIS + 10_000_000) }), 1 => None, _ => return None };
            w.app.execute_contract(sender.clone(), w.epoch_manager.clone(), &em::ExecuteMsg::UpdateConfig { epoch_config: cfg }, funds)
        }
        _ => return None,
    };
    Some(r.is_ok())
}

pub fn run() {
    println!("== C15 authorisation matrix");
    std::panic::set_hook(Box::new(|_| {}));
    let mut w = World::new(4, vec![coin(10u128.pow(20), "uom"), coin(10u128.pow(20), "uusd")], vec![coin(8888, "uom")], coin(1000, "uom"), coin(1000, "uusd"));
    let u0 = w.users[0].clone();
    w.app.execute_contract(u0.clone(), w.pool_manager.clone(), &pm::ExecuteMsg::CreatePool { asset_denoms: vec!["uom".into(), "uusd".into()], asset_decimals: vec![6, 6], pool_fees: mantra_dex_std::fee::PoolFee { protocol_fee: mantra_dex_std::fee::Fee { share: Decimal::zero() }, swap_fee: mantra_dex_std::fee::Fee { share: Decimal::zero() }, burn_fee: mantra_dex_std::fee::Fee { share: Decimal::zero() }, extra_fees: vec![] }, pool_type: pm::PoolType::ConstantProduct, pool_identifier: Some("a".into()) }, &[coin(8888, "uom"), coin(1000, "uusd")]).unwrap();
    let base = w.snapshot();
    let mut total = 0u64; let mut bad = 0u64; let mut states_total = 0u64;
    let roles: Vec<Addr> = vec![w.users[0].clone(), w.users[1].clone(), w.users[2].clone(), w.users[3].clone(), w.pool_manager.clone(), w.farm_manager.clone()];
    for c in 0..4usize {
        // BFS over ownership actions; model = (owner: Option<usize role>, pending: Option<(usize, expiry_kind)>)
        type M = (Option<usize>, Option<(usize, u8)>);
        let mut queue: VecDeque<(Vec<(usize, OwnAct)>, M)> = VecDeque::new();
        queue.push_back((vec![], (Some(0), None)));
        let mut seen: BTreeSet<M> = BTreeSet::new();
        seen.insert((Some(0), None));
        let mut nstates = 0;
        while let Some((hist, model)) = queue.pop_front() {
            nstates += 1;
            // rebuild world
            let rebuild = |w: &mut World| {
                w.restore(&base);
                for (r, a) in &hist {
                    let act = match a { OwnAct::Transfer(to, e) => Action::TransferOwnership { new_owner: roles[*to].to_string(), expiry: match e { 0 => None, 1 => Some(Expiration::AtTime(w.app.block_info().time.plus_seconds(1000))), _ => Some(Expiration::AtTime(w.app.block_info().time.plus_seconds(10))) } }, OwnAct::Accept => Action::AcceptOwnership, OwnAct::Renounce => Action::RenounceOwnership };
                    let s = roles[*r].clone();
                    exec_own(w, c, &s, act, &[]);
                    if let OwnAct::Transfer(_, 2) = a { w.advance(11); } // let the short expiry lapse
                }
            };
            // privileged config messages
            for variant in 0..12usize {
                for (ri, role) in roles.iter().enumerate() {
                    for funds in [vec![], vec![coin(1, "uom")]] {
                        if funds.len() == 1 && ri >= 4 { continue; }
                        rebuild(&mut w);
                        let pre = w.snapshot();
                        let res = match exec_cfg(&mut w, c, variant, role, &funds) { Some(r) => r, None => continue };
                        total += 1;
                        let should = model.0 == Some(ri) && funds.is_empty();
                        let changed = w.snapshot().storage != pre.storage;
                        if res != should || (!res && changed) { bad += 1; println!("  contract {c} variant {variant} role {ri} funds {} owner-model {:?}: accepted={res} expected={should} hist={hist:?}", funds.len(), model); }
                    }
                }
            }
            // ownership actions
            if hist.len() >= 3 { continue; }
            let mut acts = vec![OwnAct::Accept, OwnAct::Renounce];
            for to in [1usize, 2] { for e in [0u8, 2] { acts.push(OwnAct::Transfer(to, e)); } }
            for a in acts {
                for ri in 0..4usize {
                    for funds in [vec![], vec![coin(1, "uom")]] {
                        rebuild(&mut w);
                        let pre = w.snapshot();
                        let act = match &a { OwnAct::Transfer(to, e) => Action::TransferOwnership { new_owner: roles[*to].to_string(), expiry: match e { 0 => None, _ => Some(Expiration::AtTime(w.app.block_info().time.plus_seconds(10))) } }, OwnAct::Accept => Action::AcceptOwnership, OwnAct::Renounce => Action::RenounceOwnership };
                        let role = roles[ri].clone();
                        let res = exec_own(&mut w, c, &role, act, &funds);
                        total += 1;
                        let should = funds.is_empty() && match &a {
                            OwnAct::Transfer(..) | OwnAct::Renounce => model.0 == Some(ri),
                            OwnAct::Accept => matches!(model.1, Some((p, e)) if p == ri && e != 2),
                        };
                        let changed = w.snapshot().storage != pre.storage;
                        if res != should || (!res && changed) { bad += 1; println!("  contract {c} ownership {a:?} by role {ri} funds {}: accepted={res} expected={should} model={model:?} hist={hist:?}", funds.len()); }
                        if res && funds.is_empty() {
                            let nm: M = match &a { OwnAct::Transfer(to, e) => (model.0, Some((*to, *e))), OwnAct::Accept => (Some(ri), None), OwnAct::Renounce => (None, None) };
                            let mut h = hist.clone(); h.push((ri, a.clone()));
                            if seen.insert(nm.clone()) || h.len() <= 2 { queue.push_back((h, nm)); }
                        }
                    }
                }
            }
        }
        states_total += nstates;
        println!("contract {c}: ownership states explored {nstates}");
    }
    println!("checks={total} states={states_total} bad={bad}");
    let _ = own_msg::<u8>;
}
