use std::cell::Cell;
use std::collections::BTreeMap;
use std::rc::Rc;

use anyhow::Result as AnyResult;
use cosmwasm_std::{
    coin, Addr, AnyMsg, Api, BankMsg, BankQuery, Binary, BlockInfo, Coin, CustomMsg, CustomQuery,
    Decimal, Empty, GrpcQuery, Order, Querier, Record, Storage, Timestamp, Uint128, Uint64,
};
use cw_multi_test::{
    App, AppBuilder, AppResponse, Bank, BankKeeper, BankSudo, Contract, ContractWrapper,
    CosmosRouter, DistributionKeeper, Executor, FailingModule, GovFailingModule, IbcFailingModule,
    MockApiBech32, Module, StakeKeeper, Stargate, WasmKeeper,
};
use mantra_common_testing::multi_test::stargate_mock::StargateMock;
use mantra_dex_std::epoch_manager::EpochConfig;
use serde::de::DeserializeOwned;

#[derive(Default, Clone, PartialEq, Eq, Debug)]
pub struct SnapStorage {
    pub data: BTreeMap<Vec<u8>, Vec<u8>>,
}

impl Storage for SnapStorage {
    fn get(&self, key: &[u8]) -> Option<Vec<u8>> {
        self.data.get(key).cloned()
    }
    fn set(&mut self, key: &[u8], value: &[u8]) {
        assert!(!value.is_empty());
        self.data.insert(key.to_vec(), value.to_vec());
    }
    fn remove(&mut self, key: &[u8]) {
        self.data.remove(key);
    }
    fn range<'a>(
        &'a self,
        start: Option<&[u8]>,
        end: Option<&[u8]>,
        order: Order,
    ) -> Box<dyn Iterator<Item = Record> + 'a> {
        use std::ops::Bound;
        let s = start.map_or(Bound::Unbounded, |x| Bound::Included(x.to_vec()));
        let e = end.map_or(Bound::Unbounded, |x| Bound::Excluded(x.to_vec()));
        if let (Bound::Included(a), Bound::Excluded(b)) = (&s, &e) {
            if a > b {
                return Box::new(std::iter::empty());
            }
        }
        let it = self.data.range((s, e)).map(|(k, v)| (k.clone(), v.clone()));
        match order {
            Order::Ascending => Box::new(it),
            Order::Descending => Box::new(it.rev()),
        }
    }
}

/// Shared fault plan: counts environment calls (bank exec/sudo + stargate exec) and fails the k-th.
#[derive(Clone, Default)]
pub struct FaultPlan {
    pub counter: Rc<Cell<u32>>,
    pub fail_at: Rc<Cell<u32>>, // 0 = never
    pub log: Rc<std::cell::RefCell<Vec<String>>>,
}

impl FaultPlan {
    fn tick(&self, what: String) -> AnyResult<()> {
        let n = self.counter.get() + 1;
        self.counter.set(n);
        self.log.borrow_mut().push(what.clone());
        if self.fail_at.get() == n {
            anyhow::bail!("INJECTED FAULT at call {n}: {what}");
        }
        Ok(())
    }
    pub fn reset(&self, fail_at: u32) {
        self.counter.set(0);
        self.fail_at.set(fail_at);
        self.log.borrow_mut().clear();
    }
}

pub struct FaultBank {
    pub inner: BankKeeper,
    pub plan: FaultPlan,
}

impl Module for FaultBank {
    type ExecT = BankMsg;
    type QueryT = BankQuery;
    type SudoT = BankSudo;

    fn execute<ExecC, QueryC>(
        &self,
        api: &dyn Api,
        storage: &mut dyn Storage,
        router: &dyn CosmosRouter<ExecC = ExecC, QueryC = QueryC>,
        block: &BlockInfo,
        sender: Addr,
        msg: BankMsg,
    ) -> AnyResult<AppResponse>
    where
        ExecC: CustomMsg + DeserializeOwned + 'static,
        QueryC: CustomQuery + DeserializeOwned + 'static,
    {
        self.plan.tick(format!("bank.exec {sender} {msg:?}"))?;
        self.inner.execute(api, storage, router, block, sender, msg)
    }

    fn query(
        &self,
        api: &dyn Api,
        storage: &dyn Storage,
        querier: &dyn Querier,
        block: &BlockInfo,
        request: BankQuery,
    ) -> AnyResult<Binary> {
        self.inner.query(api, storage, querier, block, request)
    }

    fn sudo<ExecC, QueryC>(
        &self,
        api: &dyn Api,
        storage: &mut dyn Storage,
        router: &dyn CosmosRouter<ExecC = ExecC, QueryC = QueryC>,
        block: &BlockInfo,
        msg: BankSudo,
    ) -> AnyResult<AppResponse>
    where
        ExecC: CustomMsg + DeserializeOwned + 'static,
        QueryC: CustomQuery + DeserializeOwned + 'static,
    {
        self.plan.tick(format!("bank.sudo {msg:?}"))?;
        self.inner.sudo(api, storage, router, block, msg)
    }
}
impl Bank for FaultBank {}

pub struct FaultStargate {
    pub inner: StargateMock,
    pub plan: FaultPlan,
}

impl Stargate for FaultStargate {
    fn execute_any<ExecC, QueryC>(
        &self,
        api: &dyn Api,
        storage: &mut dyn Storage,
        router: &dyn CosmosRouter<ExecC = ExecC, QueryC = QueryC>,
        block: &BlockInfo,
        sender: Addr,
        msg: AnyMsg,
    ) -> AnyResult<AppResponse>
    where
        ExecC: CustomMsg + DeserializeOwned + 'static,
        QueryC: CustomQuery + DeserializeOwned + 'static,
    {
        self.plan.tick(format!("tf.exec {sender} {}", msg.type_url))?;
        self.inner.execute_any(api, storage, router, block, sender, msg)
    }
    fn query_stargate(
        &self,
        api: &dyn Api,
        storage: &dyn Storage,
        querier: &dyn Querier,
        block: &BlockInfo,
        path: String,
        data: Binary,
    ) -> AnyResult<Binary> {
        self.inner.query_stargate(api, storage, querier, block, path, data)
    }
    fn query_grpc(
        &self,
        api: &dyn Api,
        storage: &dyn Storage,
        querier: &dyn Querier,
        block: &BlockInfo,
        request: GrpcQuery,
    ) -> AnyResult<Binary> {
        self.inner.query_grpc(api, storage, querier, block, request)
    }
}

pub type DexApp = App<
    FaultBank,
    MockApiBech32,
    SnapStorage,
    FailingModule<Empty, Empty, Empty>,
    WasmKeeper<Empty, Empty>,
    StakeKeeper,
    DistributionKeeper,
    IbcFailingModule,
    GovFailingModule,
    FaultStargate,
>;

fn c_pool() -> Box<dyn Contract<Empty>> {
    Box::new(
        ContractWrapper::new_with_empty(
            pool_manager::contract::execute,
            pool_manager::contract::instantiate,
            pool_manager::contract::query,
        )
        .with_reply(pool_manager::contract::reply),
    )
}
fn c_fee() -> Box<dyn Contract<Empty>> {
    Box::new(ContractWrapper::new(
        fee_collector::contract::execute,
        fee_collector::contract::instantiate,
        fee_collector::contract::query,
    ))
}
fn c_epoch() -> Box<dyn Contract<Empty>> {
    Box::new(ContractWrapper::new(
        epoch_manager::contract::execute,
        epoch_manager::contract::instantiate,
        epoch_manager::contract::query,
    ))
}
fn c_farm() -> Box<dyn Contract<Empty>> {
    Box::new(
        ContractWrapper::new(
            farm_manager::contract::execute,
            farm_manager::contract::instantiate,
            farm_manager::contract::query,
        )
        .with_reply(farm_manager::contract::reply),
    )
}

pub const GENESIS: u64 = 1_714_057_200;

pub struct World {
    pub app: DexApp,
    pub plan: FaultPlan,
    pub users: Vec<Addr>,
    pub fee_collector: Addr,
    pub pool_manager: Addr,
    pub farm_manager: Addr,
    pub epoch_manager: Addr,
    pub tf_fee: Vec<Coin>,
}

#[derive(Clone)]
pub struct Snapshot {
    pub storage: SnapStorage,
    pub block: BlockInfo,
}

fn build_app(storage: SnapStorage, plan: FaultPlan, tf_fee: Vec<Coin>) -> DexApp {
    let mut app = AppBuilder::new()
        .with_api(MockApiBech32::new("mantra"))
        .with_wasm(WasmKeeper::default())
        .with_bank(FaultBank { inner: BankKeeper::new(), plan: plan.clone() })
        .with_storage(storage)
        .with_stargate(FaultStargate { inner: StargateMock::new(tf_fee), plan })
        .build(|_, _, _| {});
    // code ids must be stable across rebuilds
    assert_eq!(app.store_code(c_epoch()), 1);
    assert_eq!(app.store_code(c_fee()), 2);
    assert_eq!(app.store_code(c_farm()), 3);
    assert_eq!(app.store_code(c_pool()), 4);
    app
}

impl World {
    pub fn new(n_users: usize, balances: Vec<Coin>, tf_fee: Vec<Coin>, farm_fee: Coin, pool_fee: Coin) -> World {
        let plan = FaultPlan::default();
        let mut app = build_app(SnapStorage::default(), plan.clone(), tf_fee.clone());
        let api = MockApiBech32::new("mantra");
        let users: Vec<Addr> = (0..n_users).map(|i| api.addr_make(&format!("user{i}"))).collect();
        app.init_modules(|router, _, storage| {
            for u in &users {
                router.bank.inner.init_balance(storage, u, balances.clone()).unwrap();
            }
        });
        let mut b = app.block_info();
        b.time = Timestamp::from_seconds(GENESIS);
        app.set_block(b);
        let owner = users[0].clone();
        let epoch_manager = app
            .instantiate_contract(
                1,
                owner.clone(),
                &mantra_dex_std::epoch_manager::InstantiateMsg {
                    owner: owner.to_string(),
                    epoch_config: EpochConfig { duration: Uint64::new(86_400), genesis_epoch: Uint64::new(GENESIS) },
                },
                &[],
                "epoch",
                None,
            )
            .unwrap();
        let fee_collector = app
            .instantiate_contract(2, owner.clone(), &mantra_dex_std::fee_collector::InstantiateMsg {}, &[], "fee", None)
            .unwrap();
        let farm_manager = app
            .instantiate_contract(
                3,
                owner.clone(),
                &mantra_dex_std::farm_manager::InstantiateMsg {
                    owner: owner.to_string(),
                    epoch_manager_addr: epoch_manager.to_string(),
                    fee_collector_addr: fee_collector.to_string(),
                    pool_manager_addr: "".to_string(),
                    create_farm_fee: farm_fee,
                    max_concurrent_farms: 2,
                    max_farm_epoch_buffer: 14,
                    min_unlocking_duration: 86_400,
                    max_unlocking_duration: 31_556_926,
                    farm_expiration_time: mantra_dex_std::constants::MONTH_IN_SECONDS,
                    emergency_unlock_penalty: Decimal::percent(10),
                },
                &[],
                "farm",
                None,
            )
            .unwrap();
        let pool_manager = app
            .instantiate_contract(
                4,
                owner.clone(),
                &mantra_dex_std::pool_manager::InstantiateMsg {
                    fee_collector_addr: fee_collector.to_string(),
                    farm_manager_addr: farm_manager.to_string(),
                    pool_creation_fee: pool_fee,
                },
                &[],
                "pool",
                None,
            )
            .unwrap();
        app.execute_contract(
            owner.clone(),
            farm_manager.clone(),
            &mantra_dex_std::farm_manager::ExecuteMsg::UpdateConfig {
                fee_collector_addr: None,
                epoch_manager_addr: None,
                pool_manager_addr: Some(pool_manager.to_string()),
                create_farm_fee: None,
                max_concurrent_farms: None,
                max_farm_epoch_buffer: None,
                min_unlocking_duration: None,
                max_unlocking_duration: None,
                farm_expiration_time: None,
                emergency_unlock_penalty: None,
            },
            &[],
        )
        .unwrap();
        World { app, plan, users, fee_collector, pool_manager, farm_manager, epoch_manager, tf_fee }
    }

    pub fn snapshot(&self) -> Snapshot {
        Snapshot { storage: self.app.storage().clone(), block: self.app.block_info() }
    }

    pub fn restore(&mut self, s: &Snapshot) {
        // rebuild a fresh App over the cloned storage
        let mut app = build_app(s.storage.clone(), self.plan.clone(), self.tf_fee.clone());
        app.set_block(s.block.clone());
        self.app = app;
    }

    pub fn advance(&mut self, secs: u64) {
        let mut b = self.app.block_info();
        b.time = b.time.plus_seconds(secs);
        b.height += 1;
        self.app.set_block(b);
    }

    pub fn balance(&self, who: &Addr, denom: &str) -> u128 {
        self.app.wrap().query_balance(who, denom).unwrap().amount.u128()
    }
    pub fn supply(&self, denom: &str) -> u128 {
        self.app.wrap().query_supply(denom).unwrap().amount.u128()
    }
    pub fn lp(&self, id: &str) -> String {
        format!("factory/{}/{}.LP", self.pool_manager, id)
    }
}

#[allow(dead_code)]
pub fn c(a: u128, d: &str) -> Coin {
    coin(a, d)
}
#[allow(dead_code)]
pub fn u(a: u128) -> Uint128 {
    Uint128::new(a)
}
