//! Explicit-state breadth-first explorer over the real contracts (DESIGN.md §1.3) and the
//! exhaustive grid runner. Nothing here samples: every enabled operation of every retained state is
//! executed, up to the depth bound; caps are reported, never hidden.
use crate::world::*;
use rayon::prelude::*;
use serde::de::DeserializeOwned;
use serde::Serialize;
use std::cell::RefCell;
use std::collections::{BTreeMap, HashSet};
use std::fmt::Debug;
use std::hash::{Hash, Hasher};
use std::sync::atomic::{AtomicBool, AtomicU64, Ordering};
use std::sync::Mutex;
use std::time::Instant;

/// One oracle failure.
#[derive(Clone, Debug, Serialize, serde::Deserialize)]
pub struct Viol {
    pub kind: String,
    pub detail: String,
    /// key used for known-finding attribution (call-site specific, set by the oracle)
    pub kf_key: Option<String>,
}

/// Per-worker recorder; merged at the end of each level.
#[derive(Default, Clone, Debug)]
pub struct Rec {
    pub viols: Vec<Viol>,
    /// (op kind, outcome class) -> count: vacuity guard
    pub outcomes: BTreeMap<(String, String), u64>,
    /// free counters (oracle evaluations by name, etc.)
    pub counters: BTreeMap<String, u64>,
    /// number of transitions additionally compared against a reference model / twin run
    pub validated: u64,
}
impl Rec {
    pub fn viol(&mut self, kind: &str, detail: String) {
        self.viols.push(Viol { kind: kind.to_string(), detail, kf_key: None });
    }
    pub fn viol_kf(&mut self, kind: &str, kf_key: String, detail: String) {
        self.viols.push(Viol { kind: kind.to_string(), detail, kf_key: Some(kf_key) });
    }
    pub fn count(&mut self, name: &str) {
        *self.counters.entry(name.to_string()).or_default() += 1;
    }
    pub fn count_n(&mut self, name: &str, n: u64) {
        *self.counters.entry(name.to_string()).or_default() += n;
    }
    pub fn outcome(&mut self, kind: &str, class: &str) {
        *self.outcomes.entry((kind.to_string(), class.to_string())).or_default() += 1;
    }
    pub fn merge(&mut self, o: Rec) {
        self.viols.extend(o.viols);
        for (k, v) in o.outcomes {
            *self.outcomes.entry(k).or_default() += v;
        }
        for (k, v) in o.counters {
            *self.counters.entry(k).or_default() += v;
        }
        self.validated += o.validated;
    }
}

/// A property-specific checker: the universe (alphabet, enabledness, application through the real
/// messages) and the oracle, evaluated inside `step`.
pub trait Checker: Sync {
    type Op: Clone + Debug + Send + Sync + Serialize + DeserializeOwned + PartialEq;
    type Ghost: Clone + Hash + Send + Sync + Default + Debug + PartialEq;
    fn name(&self) -> String;
    fn cfg(&self) -> WorldCfg;
    /// named seeds, each an operation prefix executed (and checked) on the fresh deployment
    fn seeds(&self) -> Vec<(String, Vec<Self::Op>)>;
    /// observation of the pre-state, computed once per state and shared by all its operations
    type Pre;
    fn pre(&self, w: &mut World, g: &Self::Ghost) -> Self::Pre;
    /// small finite menu computed from the state
    fn enabled(&self, w: &mut World, g: &Self::Ghost, pre: &Self::Pre) -> Vec<Self::Op>;
    /// `w` is in the pre-state. Executes `op` on the real code, evaluates the oracle, returns
    /// Some(ghost') iff the operation was accepted (state may have changed).
    fn step(&self, w: &mut World, g: &Self::Ghost, pre: &Self::Pre, op: &Self::Op, rec: &mut Rec) -> Option<Self::Ghost>;
    /// plain execution without oracle (used to re-derive states whose snapshot was not retained)
    fn apply(&self, w: &mut World, op: &Self::Op) -> bool;
    /// state invariant evaluated once per *new* state (w is in that state; may be mutated freely)
    fn on_new_state(&self, _w: &mut World, _g: &Self::Ghost, _rec: &mut Rec) {}
    fn op_kind(&self, op: &Self::Op) -> String {
        let s = format!("{:?}", op);
        s.split(|c: char| !c.is_alphanumeric() && c != '_').next().unwrap_or("").to_string()
    }
}

pub struct Node<C: Checker + ?Sized> {
    /// None when the level was too large to retain whole-chain snapshots: the state is then
    /// re-derived by re-executing `hist` from the seed snapshot (same code, no oracle)
    pub snap: Option<Snapshot>,
    pub ghost: C::Ghost,
    pub seed: usize,
    pub hist: Vec<C::Op>,
}

#[derive(Clone, Debug, Serialize)]
pub struct ViolRecord {
    pub kind: String,
    pub kf_key: Option<String>,
    pub detail: String,
    pub seed: String,
    pub history: serde_json::Value,
    pub op: serde_json::Value,
    pub depth: usize,
}

#[derive(Default, Debug, Serialize)]
pub struct ExploreReport {
    pub job: String,
    pub depth_bound: usize,
    pub completed_depth: usize,
    pub exhaustive: bool,
    pub caps_hit: Vec<String>,
    pub states: u64,
    pub transitions: u64,
    pub accepted: u64,
    pub validated: u64,
    pub replayed_from_genesis: u64,
    pub seeds_skipped: u64,
    pub seeds_total: u64,
    pub per_depth: Vec<(usize, u64, u64)>, // depth, frontier size, new states
    pub outcomes: BTreeMap<String, u64>,
    pub counters: BTreeMap<String, u64>,
    pub distinct_outcome_classes: usize,
    pub samples: Vec<serde_json::Value>,
    pub wall_s: f64,
    #[serde(skip)]
    pub viols: BTreeMap<String, (u64, ViolRecord)>,
    /// all violation records with a kf_key (needed for exact known-finding attribution)
    #[serde(skip)]
    pub keyed: Vec<ViolRecord>,
}

pub struct Caps {
    pub wall_s: f64,
    pub max_level_states: usize,
    /// at most this many whole-chain snapshots are retained per level (memory bound)
    pub max_level_snapshots: usize,
}
impl Default for Caps {
    fn default() -> Self {
        Caps { wall_s: 1200.0, max_level_states: 20_000_000, max_level_snapshots: 150_000 }
    }
}

thread_local! {
    static TL_WORLD: RefCell<Option<(String, World)>> = RefCell::new(None);
}

/// Run `f` with this thread's world for the checker's configuration.
pub fn with_world<R>(key: &str, cfg: &dyn Fn() -> WorldCfg, f: impl FnOnce(&mut World) -> R) -> R {
    TL_WORLD.with(|cell| {
        let mut slot = cell.borrow_mut();
        let stale = match &*slot {
            Some((k, _)) => k != key,
            None => true,
        };
        if stale {
            *slot = Some((key.to_string(), World::new(&cfg())));
        }
        f(&mut slot.as_mut().unwrap().1)
    })
}

thread_local! {
    static TL_SCRATCH: RefCell<Option<World>> = RefCell::new(None);
}

/// A second per-thread world for twin runs / hypothetical continuations inside an oracle.
pub fn with_scratch<R>(cfg: &WorldCfg, snap: &Snapshot, f: impl FnOnce(&mut World) -> R) -> R {
    TL_SCRATCH.with(|cell| {
        let mut slot = cell.borrow_mut();
        if slot.as_ref().map_or(true, |w| w.users.len() != cfg.n_users) {
            *slot = Some(World::new(cfg));
        }
        let w = slot.as_mut().unwrap();
        w.tf_fee = cfg.tf_fee.clone();
        w.restore(snap);
        f(w)
    })
}

thread_local! {
    static TL_BASE: RefCell<BTreeMap<String, Snapshot>> = RefCell::new(BTreeMap::new());
}

/// Put `w` into the prepared base state `key` (built once per thread by `build` on a fresh
/// deployment, afterwards restored from the cached snapshot).
pub fn restore_base(w: &mut World, key: &str, cfg: &WorldCfg, build: impl FnOnce(&mut World)) {
    let hit = TL_BASE.with(|c| c.borrow().get(key).cloned());
    match hit {
        Some(s) => w.restore(&s),
        None => {
            *w = World::new(cfg);
            build(w);
            let s = w.snapshot();
            TL_BASE.with(|c| c.borrow_mut().insert(key.to_string(), s));
        }
    }
}

fn hash128<G: Hash>(snap: &Snapshot, g: &G) -> u128 {
    let mut h1 = std::collections::hash_map::DefaultHasher::new();
    0xA5u8.hash(&mut h1);
    snap.storage.data.hash(&mut h1);
    snap.time_nanos.hash(&mut h1);
    g.hash(&mut h1);
    let a = h1.finish();
    let mut h2 = std::collections::hash_map::DefaultHasher::new();
    0x5Au8.hash(&mut h2);
    a.hash(&mut h2);
    snap.time_nanos.hash(&mut h2);
    g.hash(&mut h2);
    snap.storage.data.hash(&mut h2);
    ((a as u128) << 64) | h2.finish() as u128
}

struct Seen {
    shards: Vec<Mutex<HashSet<u128>>>,
}
impl Seen {
    fn new() -> Self {
        Seen { shards: (0..256).map(|_| Mutex::new(HashSet::new())).collect() }
    }
    fn insert(&self, k: u128) -> bool {
        self.shards[(k as usize) & 255].lock().unwrap().insert(k)
    }
    fn len(&self) -> u64 {
        self.shards.iter().map(|s| s.lock().unwrap().len() as u64).sum()
    }
}

/// Build the seed nodes: fresh deployment, then the seed's prefix through `step` (oracles on).
pub fn build_seed<C: Checker>(c: &C, w: &mut World, prefix: &[C::Op], rec: &mut Rec) -> Option<C::Ghost> {
    *w = World::new(&c.cfg());
    let mut g = C::Ghost::default();
    for op in prefix {
        let pre = c.pre(w, &g);
        match c.step(w, &g, &pre, op, rec) {
            Some(g2) => g = g2,
            None => {
                eprintln!("[{}] seed prefix operation refused, seed skipped: {:?}", c.name(), op);
                return None;
            }
        }
    }
    Some(g)
}

pub fn explore<C: Checker>(c: &C, depth: usize, caps: &Caps) -> ExploreReport {
    let t0 = Instant::now();
    let name = c.name();
    let mut rep = ExploreReport { job: name.clone(), depth_bound: depth, exhaustive: true, ..Default::default() };
    let seeds = c.seeds();
    rep.seeds_total = seeds.len() as u64;
    let seen = Seen::new();
    let mut frontier: Vec<Node<C>> = vec![];
    let mut seed_snaps: Vec<Snapshot> = vec![];
    let mut total = Rec::default();
    let cfgf = || c.cfg();
    for (i, (sname, prefix)) in seeds.iter().enumerate() {
        let mut rec = Rec::default();
        let node = with_world(&name, &cfgf, |w| {
            let g = build_seed(c, w, prefix, &mut rec)?;
            let g2 = g.clone();
            let snap = w.snapshot();
            c.on_new_state(w, &g2, &mut rec);
            Some(Node::<C> { snap: Some(snap), ghost: g, seed: i, hist: vec![] })
        });
        let Some(node) = node else {
            // the oracle may already have recorded why; the seed is reported as not explored
            for v in rec.viols.drain(..) {
                record_viol(&mut rep, v, sname, &prefix[..0], None::<&C::Op>, 0);
            }
            rep.caps_hit.push(format!("seed {sname} could not be built (an operation of its prefix was refused); not explored"));
            rep.exhaustive = false;
            rep.seeds_skipped += 1;
            seed_snaps.push(Snapshot { storage: Default::default(), time_nanos: 0 });
            continue;
        };
        seed_snaps.push(node.snap.clone().unwrap());
        for v in rec.viols.drain(..) {
            record_viol(&mut rep, v, sname, &prefix[..0], None::<&C::Op>, 0);
        }
        total.merge(rec);
        if seen.insert(hash128(node.snap.as_ref().unwrap(), &node.ghost)) {
            frontier.push(node);
        }
    }
    let transitions = AtomicU64::new(0);
    let accepted = AtomicU64::new(0);
    let stop = AtomicBool::new(false);
    let mut replayed = 0u64;
    for d in 1..=depth {
        let last = d == depth;
        let level_new = AtomicU64::new(0);
        let level_snaps = AtomicU64::new(0);
        let seed_snaps = &seed_snaps;
        let results: Vec<(Vec<Node<C>>, Rec, Vec<(Viol, usize, Vec<C::Op>, C::Op)>)> = frontier
            .par_iter()
            .map(|n| {
                let mut rec = Rec::default();
                let mut out: Vec<Node<C>> = vec![];
                let mut vs = vec![];
                if stop.load(Ordering::Relaxed) {
                    return (out, rec, vs);
                }
                if t0.elapsed().as_secs_f64() > caps.wall_s {
                    stop.store(true, Ordering::Relaxed);
                    return (out, rec, vs);
                }
                with_world(&name, &cfgf, |w| {
                    // materialise the node's state
                    let derived;
                    let nsnap: &Snapshot = match &n.snap {
                        Some(s) => s,
                        None => {
                            w.restore(&seed_snaps[n.seed]);
                            for o in &n.hist {
                                if !c.apply(w, o) {
                                    eprintln!("MACHINERY ERROR: re-derivation of a state diverged in {name}");
                                    std::process::exit(2);
                                }
                            }
                            derived = w.snapshot();
                            &derived
                        }
                    };
                    w.restore(nsnap);
                    let pre = c.pre(w, &n.ghost);
                    w.restore(nsnap);
                    let ops = c.enabled(w, &n.ghost, &pre);
                    for op in ops {
                        w.restore(nsnap);
                        transitions.fetch_add(1, Ordering::Relaxed);
                        let before = rec.viols.len();
                        let r = c.step(w, &n.ghost, &pre, &op, &mut rec);
                        let kind = c.op_kind(&op);
                        if let Some(g2) = r {
                            accepted.fetch_add(1, Ordering::Relaxed);
                            rec.outcome(&kind, "ok");
                            let snap = w.snapshot();
                            if seen.insert(hash128(&snap, &g2)) {
                                level_new.fetch_add(1, Ordering::Relaxed);
                                c.on_new_state(w, &g2, &mut rec);
                                if !last {
                                    let mut hist = n.hist.clone();
                                    hist.push(op.clone());
                                    let keep = (level_snaps.fetch_add(1, Ordering::Relaxed) as usize) < caps.max_level_snapshots;
                                    out.push(Node::<C> { snap: if keep { Some(snap) } else { None }, ghost: g2, seed: n.seed, hist });
                                }
                            }
                        } else {
                            rec.outcome(&kind, "refused");
                        }
                        if rec.viols.len() > before {
                            for v in rec.viols.drain(before..) {
                                vs.push((v, n.seed, n.hist.clone(), op.clone()));
                            }
                        }
                    }
                });
                (out, rec, vs)
            })
            .collect();
        let fsize = frontier.len() as u64;
        let mut next: Vec<Node<C>> = vec![];
        for (out, rec, vs) in results {
            total.merge(rec);
            for (v, seed, hist, op) in vs {
                record_viol(&mut rep, v, &seeds[seed].0, &hist, Some(&op), d);
            }
            next.extend(out);
        }
        if stop.load(Ordering::Relaxed) {
            rep.caps_hit.push(format!("wall cap {}s hit during depth {}", caps.wall_s, d));
            rep.exhaustive = false;
            rep.per_depth.push((d, fsize, level_new.load(Ordering::Relaxed)));
            break;
        }
        rep.completed_depth = d;
        rep.per_depth.push((d, fsize, level_new.load(Ordering::Relaxed)));
        // differential validation: snapshot-restore reached state == linear replay from genesis
        let step_by = (next.len() / 8).max(1);
        for n in next.iter().step_by(step_by).take(8) {
            let mut rec = Rec::default();
            let ok = with_world(&name, &cfgf, |w| {
                let Some(mut g) = build_seed(c, w, &seeds[n.seed].1, &mut rec) else { return false };
                for op in &n.hist {
                    let pre = c.pre(w, &g);
                    match c.step(w, &g, &pre, op, &mut rec) {
                        Some(g2) => g = g2,
                        None => return false,
                    }
                }
                let s = w.snapshot();
                n.snap.as_ref().map_or(true, |x| &s == x) && g == n.ghost
            });
            if !ok {
                eprintln!("MACHINERY ERROR: linear replay from genesis differs from explored state in {name}: seed {} hist {:?}", seeds[n.seed].0, n.hist);
                std::process::exit(2);
            }
            replayed += 1;
        }
        if rep.samples.len() < 6 {
            for n in next.iter().step_by((next.len() / 2).max(1)).take(2) {
                rep.samples.push(serde_json::json!({"seed": seeds[n.seed].0, "history": serde_json::to_value(&n.hist).unwrap()}));
            }
        }
        if !last && next.len() > caps.max_level_states {
            rep.caps_hit.push(format!("level {} has {} states > retained-state cap {}; stopping here (all depths <= {} complete)", d, next.len(), caps.max_level_states, d));
            rep.exhaustive = false;
            break;
        }
        frontier = next;
        if frontier.is_empty() {
            break;
        }
    }
    rep.states = seen.len();
    rep.transitions = transitions.load(Ordering::Relaxed);
    rep.accepted = accepted.load(Ordering::Relaxed);
    rep.validated = total.validated;
    rep.replayed_from_genesis = replayed;
    rep.distinct_outcome_classes = total.outcomes.len();
    rep.outcomes = total.outcomes.iter().map(|((k, c), v)| (format!("{k}:{c}"), *v)).collect();
    rep.counters = total.counters;
    rep.wall_s = t0.elapsed().as_secs_f64();
    rep
}

fn record_viol<O: Serialize>(rep: &mut ExploreReport, v: Viol, seed: &str, hist: &[O], op: Option<&O>, depth: usize) {
    let r = ViolRecord {
        kind: v.kind.clone(),
        kf_key: v.kf_key.clone(),
        detail: v.detail,
        seed: seed.to_string(),
        history: serde_json::to_value(hist).unwrap(),
        op: serde_json::to_value(op).unwrap(),
        depth,
    };
    if r.kf_key.is_some() && rep.keyed.len() < 200_000 {
        rep.keyed.push(r.clone());
    }
    let e = rep.viols.entry(v.kind).or_insert_with(|| (0, r.clone()));
    e.0 += 1;
    if r.depth < e.1.depth {
        e.1 = r;
    }
}

/// Linear replay of one recorded history (no explorer): returns the recorder with whatever the
/// oracle reports along the way.
pub fn replay<C: Checker>(c: &C, seed: &str, hist: &[C::Op], op: Option<&C::Op>) -> Rec {
    let mut rec = Rec::default();
    let seeds = c.seeds();
    let prefix = &seeds.iter().find(|s| s.0 == seed).unwrap_or_else(|| panic!("unknown seed {seed}")).1;
    let mut w = World::new(&c.cfg());
    let Some(mut g) = build_seed(c, &mut w, prefix, &mut rec) else {
        rec.viol("REPLAY_SEED_REFUSED", "a seed prefix operation was refused".into());
        return rec;
    };
    for o in hist {
        let pre = c.pre(&mut w, &g);
        match c.step(&mut w, &g, &pre, o, &mut rec) {
            Some(g2) => {
                g = g2;
                let s = w.snapshot();
                c.on_new_state(&mut w, &g, &mut rec);
                w.restore(&s);
            }
            None => {
                rec.viol("REPLAY_DIVERGED", format!("history op refused: {:?}", o));
                return rec;
            }
        }
    }
    if let Some(o) = op {
        let pre = c.pre(&mut w, &g);
        if let Some(g2) = c.step(&mut w, &g, &pre, o, &mut rec) {
            c.on_new_state(&mut w, &g2, &mut rec);
        }
    }
    rec
}

// ---------------------------------------------------------------------------------------------
// Exhaustive grids: every point of a finite, stated input grid goes through the real code.

#[derive(Default, Debug, Serialize)]
pub struct GridReport {
    pub job: String,
    pub points: u64,
    pub distinct_nontrivial: u64,
    pub rule: String,
    pub counters: BTreeMap<String, u64>,
    pub outcomes: BTreeMap<String, u64>,
    pub samples: Vec<serde_json::Value>,
    pub wall_s: f64,
    #[serde(skip)]
    pub viols: BTreeMap<String, (u64, ViolRecord)>,
    #[serde(skip)]
    pub keyed: Vec<ViolRecord>,
}

/// `f` evaluates one grid point on this thread's world (it restores whatever prepared state it
/// needs) and returns true when the point was non-trivial by the job's stated rule.
pub fn grid<I: Sync + Serialize + Debug>(
    job: &str,
    rule: &str,
    cfg: &(dyn Fn() -> WorldCfg + Sync),
    inputs: &[I],
    f: &(dyn Fn(&mut World, &I, &mut Rec) -> bool + Sync),
) -> GridReport {
    let t0 = Instant::now();
    let chunk = (inputs.len() / 512).max(1);
    let results: Vec<(Rec, u64, Vec<(Viol, usize)>)> = inputs
        .par_chunks(chunk)
        .enumerate()
        .map(|(ci, ch)| {
            let mut rec = Rec::default();
            let mut nt = 0u64;
            let mut vs = vec![];
            with_world(job, &|| cfg(), |w| {
                for (j, inp) in ch.iter().enumerate() {
                    let before = rec.viols.len();
                    if f(w, inp, &mut rec) {
                        nt += 1;
                    }
                    if rec.viols.len() > before {
                        for v in rec.viols.drain(before..) {
                            vs.push((v, ci * chunk + j));
                        }
                    }
                }
            });
            (rec, nt, vs)
        })
        .collect();
    let mut rep = GridReport { job: job.to_string(), points: inputs.len() as u64, rule: rule.to_string(), ..Default::default() };
    let mut total = Rec::default();
    for (rec, nt, vs) in results {
        total.merge(rec);
        rep.distinct_nontrivial += nt;
        for (v, idx) in vs {
            let r = ViolRecord {
                kind: v.kind.clone(),
                kf_key: v.kf_key.clone(),
                detail: v.detail,
                seed: "grid".into(),
                history: serde_json::Value::Null,
                op: serde_json::to_value(&inputs[idx]).unwrap(),
                depth: 0,
            };
            if r.kf_key.is_some() && rep.keyed.len() < 200_000 {
                rep.keyed.push(r.clone());
            }
            let e = rep.viols.entry(v.kind).or_insert_with(|| (0, r.clone()));
            e.0 += 1;
        }
    }
    rep.outcomes = total.outcomes.iter().map(|((k, c), v)| (format!("{k}:{c}"), *v)).collect();
    rep.counters = total.counters;
    let n = inputs.len();
    for i in [0, n / 3, 2 * n / 3, n.saturating_sub(1)] {
        if i < n {
            rep.samples.push(serde_json::to_value(&inputs[i]).unwrap());
        }
    }
    rep.wall_s = t0.elapsed().as_secs_f64();
    rep
}
