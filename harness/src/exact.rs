use num_bigint::BigInt;

fn bi(x: u128) -> BigInt {
    BigInt::from(x)
}

/// g(D) = (Ann-1)*D*n^n*P + D^(n+1) - Ann*S*n^n*P   (increasing in D for D>0)
fn g(d: &BigInt, xs: &[BigInt], ann: &BigInt) -> BigInt {
    let n = xs.len() as u32;
    let nn = BigInt::from(n).pow(n);
    let p: BigInt = xs.iter().product();
    let s: BigInt = xs.iter().sum();
    let nnp = &nn * &p;
    (ann - 1) * d * &nnp + d.pow(n + 1) - ann * &s * &nnp
}

/// floor of the exact positive root D*, xs already scaled to a common precision
pub fn exact_d_floor(xs: &[BigInt], ann: &BigInt) -> BigInt {
    let s: BigInt = xs.iter().sum();
    if xs.iter().any(|x| x == &BigInt::from(0)) {
        return BigInt::from(0);
    }
    let mut lo = BigInt::from(0);
    let mut hi = &s + 1; // D* <= S
    // invariant g(lo) <= 0 < g(hi)
    while &hi - &lo > BigInt::from(1) {
        let mid = (&lo + &hi) / 2;
        if g(&mid, xs, ann) <= BigInt::from(0) {
            lo = mid;
        } else {
            hi = mid;
        }
    }
    lo
}

/// floor of exact positive root y of Q(y) = nnP' Ann y^2 + nnP' y (Ann S' + D - Ann D) - D^(n+1)
/// `others` are all balances except the one solved for (already including the offer)
pub fn exact_y_floor(others: &[BigInt], d: &BigInt, ann: &BigInt, n: u32) -> BigInt {
    let nn = BigInt::from(n).pow(n);
    let p: BigInt = others.iter().product();
    let s: BigInt = others.iter().sum();
    let nnp = &nn * &p;
    let q = |y: &BigInt| -> BigInt { &nnp * ann * y * y + &nnp * y * (ann * &s + d - ann * d) - d.pow(n + 1) };
    let mut lo = BigInt::from(0);
    let mut hi = d.clone() * 2 + 2;
    while q(&hi) <= BigInt::from(0) {
        hi = hi * 2;
    }
    while &hi - &lo > BigInt::from(1) {
        let mid = (&lo + &hi) / 2;
        if q(&mid) <= BigInt::from(0) {
            lo = mid;
        } else {
            hi = mid;
        }
    }
    lo
}

pub fn scale(x: u128, from_dec: u32, to_dec: u32, k: u32) -> BigInt {
    bi(x) * BigInt::from(10u32).pow(to_dec - from_dec) * BigInt::from(10u32).pow(k)
}

pub fn big(x: u128) -> BigInt {
    BigInt::from(x)
}
pub fn to_u128(x: &BigInt) -> u128 {
    x.to_string().parse().unwrap_or(u128::MAX)
}
/// floor(sqrt(x))
pub fn isqrt(x: &BigInt) -> BigInt {
    x.sqrt()
}
