//! FU — the farm universe (DESIGN.md §3): positions, farms, claims, epochs; two LP tokens.
use cw_multi_test::Executor;
use crate::engine::*;
use crate::world::*;
use cosmwasm_std::{coin, Addr, Coin, Decimal, Uint128};
use mantra_dex_std::farm_manager as fm;
use mantra_dex_std::fee::{Fee, PoolFee};
use mantra_dex_std::pool_manager as pm;
use serde::{Deserialize, Serialize};
use std::collections::{BTreeMap, BTreeSet};

pub const N_USERS: usize = 4; // 0 owner, 1 A, 2 B, 3 C (farm creator)
pub const OWNER: usize = 0;
pub const A: usize = 1;
pub const B: usize = 2;
pub const C: usize = 3;
pub const PM: usize = 4;
pub const FM: usize = 5;
pub const FC: usize = 6;
pub const N_ACC: usize = 7;

type Funds = Vec<(String, u128)>;

#[derive(Clone, Debug, Serialize, Deserialize, PartialEq)]
pub enum FuOp {
    /// deployment parameters are fixed by the checker; Base creates the two pools and hands out LP
    Base,
    CreatePos { u: usize, lp: usize, amount: u128, dur: u64, id: Option<String>, recv: Option<usize> },
    ExpandPos { u: usize, id: String, lp: usize, amount: u128 },
    ClosePos { u: usize, id: String, partial: Option<(usize, u128)> },
    WithdrawPos { u: usize, id: String, emergency: Option<bool> },
    Claim { u: usize, until: Option<u64> },
    /// start/end absolute epochs (None = contract default)
    CreateFarm { u: usize, lp: usize, start: Option<u64>, end: Option<u64>, reward: (String, u128), id: Option<String>, funds: Funds },
    ExpandFarm { u: usize, id: String, lp: usize, reward: (String, u128), funds: Funds },
    CloseFarm { u: usize, id: String },
    Advance { secs: u64 },
    /// the epoch manager's owner restarts the epoch numbering: UpdateConfig with a genesis `secs_ahead` seconds from now (same duration)
    EpochReconfig { secs_ahead: u64 },
    /// locked deposit through the pool manager (the only delegate)
    ProvideLock { u: usize, lp: usize, amount: u128, dur: u64, lock_id: Option<String> },
    /// the same through a single-asset deposit (swap half, then the pool manager calls itself)
    ProvideLockSingle { u: usize, lp: usize, amount: u128, dur: u64, lock_id: Option<String> },
    SetPenalty { u: usize, pct: u64 },
    SetFarmFee { u: usize, denom: String, amt: u128 },
    /// owner changes one numeric configuration field: max_farms | epoch_buffer | min_unlock | max_unlock | farm_expiration
    SetCfg { u: usize, field: String, val: u64 },
}

#[derive(Clone, Debug, Default, PartialEq)]
pub struct FuObs {
    pub now: u64,
    pub cur: u64,
    pub positions: Vec<fm::Position>,
    pub farms: Vec<fm::Farm>,
    pub bal: Vec<BTreeMap<String, u128>>,
    pub cfg: Option<fm::Config>,
    pub lps: Vec<String>,
    /// (account index, lp index) -> raw weight entries (epoch -> weight) for epochs 0..=cur+1
    pub wraw: BTreeMap<(usize, usize), BTreeMap<u64, u128>>,
}
impl FuObs {
    pub fn b(&self, acc: usize, denom: &str) -> u128 {
        self.bal[acc].get(denom).copied().unwrap_or(0)
    }
    /// weight in effect at epoch e (carry-forward of the latest entry <= e)
    pub fn weight(&self, acc: usize, lp: usize, e: u64) -> u128 {
        self.wraw.get(&(acc, lp)).and_then(|m| m.range(..=e).next_back().map(|(_, v)| *v)).unwrap_or(0)
    }
    pub fn pos(&self, id: &str) -> Option<&fm::Position> {
        self.positions.iter().find(|p| p.identifier == id)
    }
    pub fn farm(&self, id: &str) -> Option<&fm::Farm> {
        self.farms.iter().find(|f| f.identifier == id)
    }
    /// denom an operation's LP index stands for: 0/1 the first pool manager's two LP tokens, 2 the token `o.a.LP` of the
    /// pool manager the farm manager is configured with
    pub fn lp_denom(&self, lp: usize) -> String {
        self.lps.get(lp).cloned().unwrap_or_else(|| format!("factory/{}/o.a.LP", self.cfg.as_ref().map(|c| c.pool_manager_addr.to_string()).unwrap_or_default()))
    }
    pub fn lp_index(&self, denom: &str) -> Option<usize> {
        self.lps.iter().position(|l| l == denom).or_else(|| (denom == self.lp_denom(2)).then_some(2))
    }
}

pub fn accounts(w: &World) -> Vec<Addr> {
    let mut v: Vec<Addr> = w.users[..N_USERS].to_vec();
    v.push(w.pool_manager.clone());
    v.push(w.farm_manager.clone());
    v.push(w.fee_collector.clone());
    v
}
pub fn acc_index(w: &World, a: &Addr) -> Option<usize> {
    accounts(w).iter().position(|x| x == a)
}

pub fn cur_epoch(w: &World) -> u64 {
    w.query::<mantra_dex_std::epoch_manager::EpochResponse, _>(&w.epoch_manager, &mantra_dex_std::epoch_manager::QueryMsg::CurrentEpoch {}).map(|r| r.epoch.id).unwrap_or(0)
}

pub fn lps(w: &World) -> Vec<String> {
    vec![w.lp("o.a"), w.lp("o.b")]
}

pub fn observe(w: &World) -> FuObs {
    observe_opt(w, true)
}
/// observation without the weight tables (cheap; used by long hypothetical continuations)
pub fn observe_light(w: &World) -> FuObs {
    observe_opt(w, false)
}
fn observe_opt(w: &World, weights: bool) -> FuObs {
    let accs = accounts(w);
    let cur = cur_epoch(w);
    let mut positions: Vec<fm::Position> = vec![];
    for u in 0..N_USERS {
        for open in [true, false] {
            // paginate: the contract caps a page at ten entries, and nothing guarantees that a user holds at most ten
            let mut after: Option<String> = None;
            loop {
                let Ok(r) = w.query::<fm::PositionsResponse, _>(&w.farm_manager, &fm::QueryMsg::Positions { filter_by: Some(fm::PositionsBy::Receiver(w.users[u].to_string())), open_state: Some(open), start_after: after.clone(), limit: Some(100) }) else { break };
                let Some(last) = r.positions.last().map(|p| p.identifier.clone()) else { break };
                positions.extend(r.positions);
                if after.as_ref() == Some(&last) {
                    break;
                }
                after = Some(last);
            }
        }
    }
    positions.sort_by(|a, b| a.identifier.cmp(&b.identifier));
    let farms = w.query::<fm::FarmsResponse, _>(&w.farm_manager, &fm::QueryMsg::Farms { filter_by: None, start_after: None, limit: Some(100) }).map(|r| r.farms).unwrap_or_default();
    let bal = accs.iter().map(|a| w.all_balances(a).into_iter().map(|c| (c.denom, c.amount.u128())).collect()).collect();
    let cfg = w.query::<fm::Config, _>(&w.farm_manager, &fm::QueryMsg::Config {}).ok();
    let lps = lps(w);
    let mut wraw = BTreeMap::new();
    for (ai, a) in accs.iter().enumerate() {
        if ai == FC || !weights {
            continue;
        }
        for (li, lp) in lps.iter().enumerate() {
            let mut m = BTreeMap::new();
            for e in 0..=cur + 1 {
                if let Ok(r) = w.query::<fm::LpWeightResponse, _>(&w.farm_manager, &fm::QueryMsg::LpWeight { address: a.to_string(), denom: lp.clone(), epoch_id: e }) {
                    m.insert(e, r.lp_weight.u128());
                }
            }
            if !m.is_empty() {
                wraw.insert((ai, li), m);
            }
        }
    }
    FuObs { now: w.now(), cur, positions, farms, bal, cfg, lps, wraw }
}

fn coins(f: &Funds) -> Vec<Coin> {
    f.iter().map(|(d, a)| coin(*a, d)).collect()
}

pub fn apply(w: &mut World, op: &FuOp) -> Outcome {
    let fma = w.farm_manager.clone();
    let pma = w.pool_manager.clone();
    let mut lpd = lps(w);
    // index 2: the LP token of pool `o.a` of whatever pool manager the farm manager is configured with now
    // (the first pool manager's own token unless the owner re-pointed it)
    let pm_now = w.query::<fm::Config, _>(&fma, &fm::QueryMsg::Config {}).map(|c| c.pool_manager_addr.to_string()).unwrap_or_else(|_| pma.to_string());
    lpd.push(format!("factory/{pm_now}/o.a.LP"));
    let user = |w: &World, u: usize| if u < N_USERS { w.users[u].clone() } else { accounts(w)[u].clone() };
    let mp = |action| fm::ExecuteMsg::ManagePosition { action };
    match op {
        FuOp::Base => {
            let zf = Fee { share: Decimal::zero() };
            let fees = PoolFee { protocol_fee: zf.clone(), swap_fee: zf.clone(), burn_fee: zf, extra_fees: vec![] };
            let owner = w.users[OWNER].clone();
            for (id, d) in [("a", ["uom", "uusd"]), ("b", ["uusdc", "uom"])] {
                let o = w.exec(&owner, &pma, &pm::ExecuteMsg::CreatePool { asset_denoms: d.iter().map(|s| s.to_string()).collect(), asset_decimals: vec![6, 6], pool_fees: fees.clone(), pool_type: pm::PoolType::ConstantProduct, pool_identifier: Some(id.into()) }, &[coin(8888, "uom"), coin(1000, "uusd")]);
                if !o.is_ok() {
                    return o;
                }
                for u in 0..N_USERS {
                    let usr = w.users[u].clone();
                    let o = w.exec(&usr, &pma, &pm::ExecuteMsg::ProvideLiquidity { liquidity_max_slippage: None, swap_max_slippage: None, receiver: None, pool_identifier: format!("o.{id}"), unlocking_duration: None, lock_position_identifier: None }, &[coin(10_000_000, d[0]), coin(10_000_000, d[1])]);
                    if !o.is_ok() {
                        return o;
                    }
                }
            }
            Outcome::Ok(Default::default())
        }
        FuOp::CreatePos { u, lp, amount, dur, id, recv } => w.exec(&user(w, *u), &fma, &mp(fm::PositionAction::Create { identifier: id.clone(), unlocking_duration: *dur, receiver: recv.map(|r| w.users[r].to_string()) }), &[coin(*amount, &lpd[*lp])]),
        FuOp::ExpandPos { u, id, lp, amount } => w.exec(&user(w, *u), &fma, &mp(fm::PositionAction::Expand { identifier: id.clone() }), &[coin(*amount, &lpd[*lp])]),
        FuOp::ClosePos { u, id, partial } => w.exec(&user(w, *u), &fma, &mp(fm::PositionAction::Close { identifier: id.clone(), lp_asset: partial.map(|(l, a)| coin(a, &lpd[l])) }), &[]),
        FuOp::WithdrawPos { u, id, emergency } => w.exec(&user(w, *u), &fma, &mp(fm::PositionAction::Withdraw { identifier: id.clone(), emergency_unlock: *emergency }), &[]),
        FuOp::Claim { u, until } => w.exec(&user(w, *u), &fma, &fm::ExecuteMsg::Claim { until_epoch: *until }, &[]),
        FuOp::CreateFarm { u, lp, start, end, reward, id, funds } => w.exec(
            &user(w, *u),
            &fma,
            &fm::ExecuteMsg::ManageFarm { action: fm::FarmAction::Create { params: fm::FarmParams { lp_denom: lpd[*lp].clone(), start_epoch: *start, preliminary_end_epoch: *end, curve: None, farm_asset: coin(reward.1, resolve(&lpd, &reward.0)), farm_identifier: id.clone() } } },
            &coins(&funds.iter().map(|(d, a)| (resolve(&lpd, d), *a)).collect()),
        ),
        FuOp::ExpandFarm { u, id, lp, reward, funds } => w.exec(
            &user(w, *u),
            &fma,
            &fm::ExecuteMsg::ManageFarm { action: fm::FarmAction::Expand { params: fm::FarmParams { lp_denom: lpd[*lp].clone(), start_epoch: None, preliminary_end_epoch: None, curve: None, farm_asset: coin(reward.1, resolve(&lpd, &reward.0)), farm_identifier: Some(id.clone()) } } },
            &coins(&funds.iter().map(|(d, a)| (resolve(&lpd, d), *a)).collect()),
        ),
        FuOp::CloseFarm { u, id } => w.exec(&user(w, *u), &fma, &fm::ExecuteMsg::ManageFarm { action: fm::FarmAction::Close { farm_identifier: id.clone() } }, &[]),
        FuOp::Advance { secs } => {
            w.advance(*secs);
            Outcome::Ok(Default::default())
        }
        FuOp::EpochReconfig { secs_ahead } => {
            let ema = w.epoch_manager.clone();
            let g = w.now() + *secs_ahead;
            w.exec(&user(w, OWNER), &ema, &mantra_dex_std::epoch_manager::ExecuteMsg::UpdateConfig { epoch_config: Some(mantra_dex_std::epoch_manager::EpochConfig { duration: cosmwasm_std::Uint64::new(DAY), genesis_epoch: cosmwasm_std::Uint64::new(g) }) }, &[])
        }
        FuOp::ProvideLock { u, lp, amount, dur, lock_id } => {
            let (id, d) = if *lp == 0 { ("o.a", ["uom", "uusd"]) } else { ("o.b", ["uusdc", "uom"]) };
            w.exec(&user(w, *u), &pma, &pm::ExecuteMsg::ProvideLiquidity { liquidity_max_slippage: None, swap_max_slippage: None, receiver: None, pool_identifier: id.into(), unlocking_duration: Some(*dur), lock_position_identifier: lock_id.clone() }, &[coin(*amount, d[0]), coin(*amount, d[1])])
        }
        FuOp::ProvideLockSingle { u, lp, amount, dur, lock_id } => {
            let (id, d) = if *lp == 0 { ("o.a", "uom") } else { ("o.b", "uusdc") };
            w.exec(&user(w, *u), &pma, &pm::ExecuteMsg::ProvideLiquidity { liquidity_max_slippage: None, swap_max_slippage: Some(Decimal::percent(50)), receiver: None, pool_identifier: id.into(), unlocking_duration: Some(*dur), lock_position_identifier: lock_id.clone() }, &[coin(*amount, d)])
        }
        FuOp::SetPenalty { u, pct } => w.exec(&user(w, *u), &fma, &upd(None, Some(Decimal::percent(*pct))), &[]),
        FuOp::SetFarmFee { u, denom, amt } => w.exec(&user(w, *u), &fma, &upd(Some(coin(*amt, denom)), None), &[]),
        FuOp::SetCfg { u, field, .. } if field == "second_pool_manager" => {
            // a second pool-manager instance (a redeployment) with a pool of the same identifier as the first one's pool `a`,
            // funded by every user; the farm manager's owner then points pool_manager_addr at it
            let owner = w.users[OWNER].clone();
            let (fc, fmg) = (w.fee_collector.to_string(), w.farm_manager.to_string());
            let app = &mut w.app;
            let pm2 = match app.instantiate_contract(4, owner.clone(), &pm::InstantiateMsg { fee_collector_addr: fc, farm_manager_addr: fmg, pool_creation_fee: coin(1000, "uusd") }, &[], "pool2", None) {
                Ok(a) => a,
                Err(e) => return Outcome::Rejected(format!("{:#}", e)),
            };
            let zf = Fee { share: Decimal::zero() };
            let fees = PoolFee { protocol_fee: zf.clone(), swap_fee: zf.clone(), burn_fee: zf, extra_fees: vec![] };
            let o = w.exec(&owner, &pm2, &pm::ExecuteMsg::CreatePool { asset_denoms: vec!["uom".into(), "uusd".into()], asset_decimals: vec![6, 6], pool_fees: fees, pool_type: pm::PoolType::ConstantProduct, pool_identifier: Some("a".into()) }, &[coin(8888, "uom"), coin(1000, "uusd")]);
            if !o.is_ok() {
                return o;
            }
            for i in 0..N_USERS {
                let usr = w.users[i].clone();
                let o = w.exec(&usr, &pm2, &pm::ExecuteMsg::ProvideLiquidity { liquidity_max_slippage: None, swap_max_slippage: None, receiver: None, pool_identifier: "o.a".into(), unlocking_duration: None, lock_position_identifier: None }, &[coin(10_000_000, "uom"), coin(10_000_000, "uusd")]);
                if !o.is_ok() {
                    return o;
                }
            }
            w.exec(&user(w, *u), &fma, &fm::ExecuteMsg::UpdateConfig { fee_collector_addr: None, epoch_manager_addr: None, pool_manager_addr: Some(pm2.to_string()), create_farm_fee: None, max_concurrent_farms: None, max_farm_epoch_buffer: None, min_unlocking_duration: None, max_unlocking_duration: None, farm_expiration_time: None, emergency_unlock_penalty: None }, &[])
        }
        FuOp::SetCfg { u, field, val } => {
            let mut m = (None, None, None, None, None);
            // address fields: val is an account index (users, then pool manager, farm manager, fee collector)
            let (mut fc, mut pmx) = (None, None);
            match field.as_str() {
                "max_farms" => m.0 = Some(*val as u32),
                "epoch_buffer" => m.1 = Some(*val as u32),
                "min_unlock" => m.2 = Some(*val),
                "max_unlock" => m.3 = Some(*val),
                "fee_collector" => fc = Some(user(w, *val as usize).to_string()),
                "pool_manager" => pmx = Some(user(w, *val as usize).to_string()),
                _ => m.4 = Some(*val),
            }
            w.exec(&user(w, *u), &fma, &fm::ExecuteMsg::UpdateConfig { fee_collector_addr: fc, epoch_manager_addr: None, pool_manager_addr: pmx, create_farm_fee: None, max_concurrent_farms: m.0, max_farm_epoch_buffer: m.1, min_unlocking_duration: m.2, max_unlocking_duration: m.3, farm_expiration_time: m.4, emergency_unlock_penalty: None }, &[])
        }
    }
}
fn upd(fee: Option<Coin>, pen: Option<Decimal>) -> fm::ExecuteMsg {
    fm::ExecuteMsg::UpdateConfig { fee_collector_addr: None, epoch_manager_addr: None, pool_manager_addr: None, create_farm_fee: fee, max_concurrent_farms: None, max_farm_epoch_buffer: None, min_unlocking_duration: None, max_unlocking_duration: None, farm_expiration_time: None, emergency_unlock_penalty: pen }
}
/// "lp0"/"lp1" placeholders in reward denoms / funds resolve to the LP denoms
pub fn resolve(lpd: &[String], d: &str) -> String {
    match d {
        "lp0" => lpd[0].clone(),
        "lp1" => lpd[1].clone(),
        x => x.to_string(),
    }
}

// ------------------------------------------------------------------------------------------------
// Ghost ledger: naive reference model stepped from observable effects.

#[derive(Clone, Default, Debug, PartialEq, Eq, Hash)]
pub struct FuGhost {
    /// (user, lp) -> [(effective epoch, weight as first observed after the operation)]
    pub timeline: BTreeMap<(usize, usize), Vec<(u64, u128)>>,
    pub last_claimed: BTreeMap<usize, u64>,
    /// (user, farm id, epoch) cells already paid
    pub cells: BTreeSet<(usize, String, u64)>,
    /// (farm id, epoch) -> total paid to all users
    pub paid: BTreeMap<(String, u64), u128>,
    /// farm id -> (owner, funded, claimed by model, start, end, rate, reward denom, lp)
    pub farms: BTreeMap<String, GFarm>,
    /// position id -> model record
    pub pos: BTreeMap<String, GPos>,
    /// lp index -> a partial close or piecewise top-up happened (C10 equality clause)
    pub pieces: BTreeSet<usize>,
    /// known-finding taint tags (history-pattern records), e.g. "P1:<user>:<lp>"
    pub taint: BTreeSet<String>,
}
#[derive(Clone, Default, Debug, PartialEq, Eq, Hash)]
pub struct GFarm {
    pub owner: usize,
    pub funded: u128,
    pub claimed: u128,
    pub start: u64,
    pub end: u64,
    pub rate: u128,
    pub denom: String,
    pub lp: String,
}
#[derive(Clone, Default, Debug, PartialEq, Eq, Hash)]
pub struct GPos {
    pub owner: usize,
    pub lp: String,
    pub amount: u128,
    pub dur: u64,
    pub open: bool,
    pub expiring_at: Option<u64>,
}

pub struct FuCtx<'a> {
    pub w: &'a World,
    pub op: &'a FuOp,
    pub pre: &'a FuObs,
    pub post: &'a FuObs,
    pub out: &'a Outcome,
    pub g0: &'a FuGhost,
    pub g1: &'a FuGhost,
    pub s0: &'a Snapshot,
    pub storage_unchanged: bool,
    /// Rewards{until} query issued on the pre-state for Claim ops
    pub rewards_q: Option<Result<BTreeMap<String, u128>, String>>,
    /// per-denom payout the reference model expects for a Claim op (None if the claim is not valid)
    pub expected: Option<Expected>,
}
#[derive(Clone, Debug, Default)]
pub struct Expected {
    pub per_denom: BTreeMap<String, u128>,
    /// (farm id, epoch, amount) cells of this claim
    pub cells: Vec<(String, u64, u128)>,
    pub until: u64,
}
impl FuCtx<'_> {
    pub fn delta(&self, acc: usize, denom: &str) -> i128 {
        self.post.b(acc, denom) as i128 - self.pre.b(acc, denom) as i128
    }
}

/// The reference model's expectation for Claim{until} by user u on the pre-state.
pub fn expected_claim(pre: &FuObs, g: &FuGhost, u: usize, w: &World, until: Option<u64>) -> Option<Expected> {
    let open: Vec<&fm::Position> = pre.positions.iter().filter(|p| p.open && p.receiver == w.users[u]).collect();
    if open.is_empty() {
        return None;
    }
    let until_e = until.unwrap_or(pre.cur);
    if until_e > pre.cur {
        return None;
    }
    if let Some(l) = g.last_claimed.get(&u) {
        if until_e < *l {
            return None;
        }
    }
    let mut exp = Expected { until: until_e, ..Default::default() };
    let lp_set: BTreeSet<usize> = open.iter().filter_map(|p| pre.lp_index(&p.lp_asset.denom)).collect();
    for li in lp_set {
        let tl = g.timeline.get(&(u, li)).cloned().unwrap_or_default();
        let start = match g.last_claimed.get(&u) {
            Some(l) => l + 1,
            None => match tl.first() {
                Some(x) => x.0,
                None => continue,
            },
        };
        for f in pre.farms.iter().filter(|f| f.lp_denom == pre.lps[li]) {
            let mut e = start;
            while e <= until_e {
                if e >= f.start_epoch && e < f.preliminary_end_epoch {
                    let wu = tl.iter().filter(|x| x.0 <= e).last().map(|x| x.1).unwrap_or(0);
                    let tot = pre.weight(FM, li, e);
                    if tot > 0 {
                        let r = (num_bigint::BigUint::from(f.emission_rate.u128()) * num_bigint::BigUint::from(wu) / num_bigint::BigUint::from(tot)).to_string().parse::<u128>().unwrap_or(u128::MAX);
                        if r > 0 {
                            *exp.per_denom.entry(f.farm_asset.denom.clone()).or_default() += r;
                        }
                        exp.cells.push((f.identifier.clone(), e, r));
                    }
                }
                e += 1;
            }
        }
    }
    Some(exp)
}

pub fn ghost_step(w: &World, g: &FuGhost, op: &FuOp, pre: &FuObs, post: &FuObs, expected: &Option<Expected>) -> FuGhost {
    let mut g = g.clone();
    // positions model: mirror what the operation is supposed to do, from the operation itself
    let owner_of = |a: &Addr| acc_index(w, a).unwrap_or(usize::MAX);
    match op {
        FuOp::CreatePos { .. } | FuOp::ProvideLock { .. } | FuOp::ProvideLockSingle { .. } | FuOp::ExpandPos { .. } | FuOp::ClosePos { .. } | FuOp::WithdrawPos { .. } => {
            // re-read the table of positions (identifiers are assigned by the contract); the oracles
            // compare pre/post tables against the rules, the ghost keeps the table for later steps
            g.pos = post.positions.iter().map(|p| (p.identifier.clone(), GPos { owner: owner_of(&p.receiver), lp: p.lp_asset.denom.clone(), amount: p.lp_asset.amount.u128(), dur: p.unlocking_duration, open: p.open, expiring_at: p.expiring_at })).collect();
            // whose weights may have changed: every user (cheap), for both lps
            for u in 0..N_USERS {
                for li in 0..post.lps.len() {
                    let has_open = post.positions.iter().any(|p| p.open && p.receiver == w.users[u] && p.lp_asset.denom == post.lps[li]);
                    let e = post.cur + 1;
                    let w_pre = pre.wraw.get(&(u, li)).and_then(|m| m.get(&e)).copied();
                    let w_post = post.wraw.get(&(u, li)).and_then(|m| m.get(&e)).copied();
                    if !has_open {
                        g.timeline.remove(&(u, li));
                    } else if w_post != w_pre || (w_post.is_some() && !g.timeline.contains_key(&(u, li))) {
                        if let Some(x) = w_post {
                            let tl = g.timeline.entry((u, li)).or_default();
                            tl.retain(|t| t.0 != e);
                            tl.push((e, x));
                        }
                    }
                }
                let any_open = post.positions.iter().any(|p| p.open && p.receiver == w.users[u]);
                if !any_open {
                    g.last_claimed.remove(&u);
                    g.cells.retain(|c| c.0 != u);
                }
            }
            match op {
                FuOp::ClosePos { id, partial: Some(_), .. } => {
                    if let Some(p) = pre.pos(id) {
                        if let Some(li) = pre.lp_index(&p.lp_asset.denom) {
                            g.pieces.insert(li);
                        }
                    }
                }
                FuOp::ExpandPos { lp, .. } => {
                    g.pieces.insert(*lp);
                }
                FuOp::ProvideLock { lp, lock_id: Some(_), .. } | FuOp::ProvideLockSingle { lp, lock_id: Some(_), .. } => {
                    g.pieces.insert(*lp);
                }
                _ => {}
            }
        }
        FuOp::Claim { u, .. } => {
            if let Some(exp) = expected {
                g.last_claimed.insert(*u, exp.until);
                for (fid, e, amt) in &exp.cells {
                    g.cells.insert((*u, fid.clone(), *e));
                    *g.paid.entry((fid.clone(), *e)).or_default() += amt;
                    if let Some(f) = g.farms.get_mut(fid) {
                        f.claimed += amt;
                    }
                }
                // the model's timeline is trimmed the way the statement implies: weights in effect stay
                for li in 0..post.lps.len() {
                    if let Some(tl) = g.timeline.get_mut(&(*u, li)) {
                        let eff = tl.iter().filter(|x| x.0 <= exp.until).last().cloned();
                        tl.retain(|x| x.0 > exp.until);
                        if let Some((_, wgt)) = eff {
                            tl.insert(0, (exp.until, wgt));
                        }
                    }
                }
            }
        }
        _ => {}
    }
    // farm table: from the contract's own table (identity, schedule), budgets tracked by the model
    let mut farms = BTreeMap::new();
    for f in &post.farms {
        let prev = g.farms.get(&f.identifier);
        let same = prev.map_or(false, |p| p.start == f.start_epoch && p.lp == f.lp_denom && p.owner == owner_of(&f.owner));
        let claimed = if same { prev.unwrap().claimed } else { 0 };
        farms.insert(f.identifier.clone(), GFarm { owner: owner_of(&f.owner), funded: f.farm_asset.amount.u128(), claimed, start: f.start_epoch, end: f.preliminary_end_epoch, rate: f.emission_rate.u128(), denom: f.farm_asset.denom.clone(), lp: f.lp_denom.clone() });
    }
    // forget cells of farms that are gone
    let gone: Vec<String> = g.farms.keys().filter(|k| !farms.contains_key(*k)).cloned().collect();
    for k in gone {
        g.cells.retain(|c| c.1 != k);
        g.paid.retain(|c, _| c.0 != k);
    }
    g.farms = farms;
    g
}

pub type FuOracle = fn(&FuCtx, &mut Rec);

#[derive(Clone, Copy, PartialEq, Eq, Debug)]
pub enum FAlpha {
    Full,
    /// reward-relevant: positions, claims, farm create/expand/close, advance
    Reward,
    /// claim core: claim variants, expand, close, emergency, advance
    RewardCore,
    /// position operations and time only
    Positions,
    /// farm lifecycle: farms, claims, one position, advance + expiry jumps
    Farms,
}

#[derive(Clone)]
pub struct FuChecker {
    pub name: String,
    pub seeds: Vec<&'static str>,
    pub alpha: FAlpha,
    pub oracles: Vec<FuOracle>,
    pub state_oracles: Vec<fn(&FuChecker, &mut World, &FuGhost, &mut Rec)>,
    pub farm_fee: (String, u128),
    pub reward_denoms: Vec<&'static str>,
    pub max_farms: u32,
}
impl FuChecker {
    pub fn new(name: &str, seeds: Vec<&'static str>, alpha: FAlpha, oracles: Vec<FuOracle>) -> Self {
        FuChecker { name: name.into(), seeds, alpha, oracles, state_oracles: vec![], farm_fee: ("uom".into(), 1000), reward_denoms: vec!["uusdc"], max_farms: 2 }
    }
}

pub fn cfg_with_fee(fee: &(String, u128)) -> WorldCfg {
    WorldCfg { n_users: N_USERS, farm_fee: coin(fee.1, &fee.0), ..Default::default() }
}

fn pos(u: usize, lp: usize, amount: u128, dur: u64) -> FuOp {
    FuOp::CreatePos { u, lp, amount, dur, id: None, recv: None }
}
pub fn farm_op(fee: &(String, u128), u: usize, lp: usize, start: Option<u64>, end: Option<u64>, reward: (&str, u128), id: Option<&str>) -> FuOp {
    let mut funds: BTreeMap<String, u128> = BTreeMap::new();
    *funds.entry(reward.0.to_string()).or_default() += reward.1;
    if fee.1 > 0 {
        *funds.entry(fee.0.clone()).or_default() += fee.1;
    }
    FuOp::CreateFarm { u, lp, start, end, reward: (reward.0.to_string(), reward.1), id: id.map(|s| s.to_string()), funds: funds.into_iter().collect() }
}

impl FuChecker {
    pub fn seed_ops(&self, name: &str) -> Vec<FuOp> {
        let fee = &self.farm_fee;
        let mut v = vec![FuOp::Base];
        match name {
            "F0" => {}
            "F1" => v.push(pos(A, 0, 1000, DAY)),
            "F2" => {
                v.push(pos(A, 0, 1000, DAY));
                v.push(pos(B, 0, 1000, 100 * DAY));
                v.push(farm_op(fee, C, 0, Some(1), Some(5), ("uusdc", 4000), None));
                v.push(FuOp::Advance { secs: DAY });
                v.push(FuOp::Advance { secs: DAY });
            }
            "F3" => {
                // two LP tokens sharing one claim cursor; a farm whose reward is itself an LP token
                v.push(pos(A, 0, 1000, DAY));
                v.push(pos(A, 1, 700, 100 * DAY));
                v.push(pos(B, 0, 3, 365 * DAY));
                v.push(pos(C, 0, 500, 30 * DAY)); // a third weight holder who never claims in the alphabet
                v.push(farm_op(fee, C, 0, Some(1), Some(4), ("uusdc", 3000), None));
                v.push(farm_op(fee, C, 1, Some(2), Some(5), ("lp0", 3000), Some("x")));
                v.push(FuOp::Advance { secs: DAY });
                v.push(FuOp::Advance { secs: DAY });
            }
            "F4" => {
                // a closed position about to unlock, a farm about to end
                v.push(pos(A, 0, 1000, DAY));
                v.push(pos(B, 0, 7, 100 * DAY));
                v.push(farm_op(fee, C, 0, Some(1), Some(3), ("uusdc", 2000), None));
                v.push(FuOp::ClosePos { u: A, id: "p-1".into(), partial: Some((0, 400)) });
                v.push(FuOp::Advance { secs: DAY - 1 });
            }
            "F5" => {
                // explicit identifiers in every life-cycle stage: a closed-but-not-withdrawn one, an open one
                v.push(FuOp::CreatePos { u: A, lp: 0, amount: 1000, dur: DAY, id: Some("1".into()), recv: None });
                v.push(FuOp::CreatePos { u: A, lp: 0, amount: 7, dur: 100 * DAY, id: Some("k".into()), recv: None });
                v.push(FuOp::ClosePos { u: A, id: "u-1".into(), partial: None });
                v.push(pos(B, 0, 1000, DAY));
            }
            "F10" => {
                // two active farms on one LP with DIFFERENT owners, positions with amounts whose 10% penalty is odd
                v.push(pos(A, 0, 1010, DAY));
                v.push(pos(B, 0, 1000, 100 * DAY));
                v.push(farm_op(fee, C, 0, Some(1), Some(5), ("uusdc", 4000), None));
                v.push(farm_op(fee, OWNER, 0, Some(1), Some(5), ("uusdc", 4000), Some("o")));
                v.push(FuOp::Advance { secs: DAY });
                v.push(FuOp::Advance { secs: DAY });
            }
            "F11" => {
                // F3, then B (who already claimed with a position in lp0 only) enters lp1 later: the claim cursor is per user,
                // the weight history per LP token
                v = self.seed_ops("F3");
                v.push(FuOp::Claim { u: B, until: None });
                v.push(FuOp::Advance { secs: DAY });
                v.push(pos(B, 1, 1000, DAY));
                v.push(FuOp::Advance { secs: DAY });
            }
            "F7" => {
                // one open position next to ten closed ones of the same user (both per-user position limits in play)
                v.push(FuOp::CreatePos { u: A, lp: 0, amount: 10_000, dur: DAY, id: Some("z".into()), recv: None });
                v.push(pos(B, 0, 1000, 100 * DAY));
                for _ in 0..10 {
                    v.push(FuOp::ClosePos { u: A, id: "u-z".into(), partial: Some((0, 100)) });
                }
                v.push(farm_op(fee, C, 0, Some(1), Some(5), ("uusdc", 4000), None));
                v.push(FuOp::Advance { secs: DAY });
            }
            "F8" => {
                // a farm claimed down to exactly zero by its only staker
                v.push(pos(A, 0, 1000, DAY));
                v.push(farm_op(fee, C, 0, Some(1), Some(3), ("uusdc", 2000), None));
                v.push(FuOp::Advance { secs: 3 * DAY });
                v.push(FuOp::Claim { u: A, until: None });
            }
            "F9" => {
                // users who claimed (for nothing) while their LP token had no farm at all
                v.push(pos(A, 0, 1000, DAY));
                v.push(pos(B, 0, 1000, DAY));
                v.push(FuOp::Advance { secs: DAY });
                v.push(FuOp::Advance { secs: DAY });
                v.push(FuOp::Claim { u: A, until: None });
            }
            "F14" => {
                // A holds lp0 only and has claimed; farms run on lp0 and on lp1, which nobody has ever staked; two epochs later A
                // becomes the first staker of lp1 ever (the contract's earliest lp1 snapshot is later than A's claim cursor + 1)
                v.push(pos(A, 0, 1000, DAY));
                v.push(farm_op(fee, C, 0, Some(1), Some(9), ("uusdc", 8000), Some("a0")));
                v.push(farm_op(fee, C, 1, Some(1), Some(9), ("uusdc", 8000), Some("a1")));
                v.push(FuOp::Advance { secs: DAY });
                v.push(FuOp::Claim { u: A, until: None });
                v.push(FuOp::Advance { secs: DAY });
                v.push(FuOp::Advance { secs: DAY });
                v.push(pos(A, 1, 700, DAY));
                v.push(FuOp::Advance { secs: DAY });
                v.push(FuOp::Advance { secs: DAY });
            }
            "F15" => {
                // a farm that has ended (not yet expired); the whale has claimed everything, what is left is the minnow's due
                // and is smaller than one epoch's emission
                v.push(pos(A, 0, 9900, DAY));
                v.push(pos(B, 0, 100, DAY));
                v.push(farm_op(fee, C, 0, Some(1), Some(5), ("uusdc", 4000), Some("w")));
                v.push(FuOp::Advance { secs: 6 * DAY });
                v.push(FuOp::Claim { u: A, until: None });
            }
            "F16" => {
                // two farms on lp0 (different reward denoms), two stakers; then the owner lowers max_farm_epoch_buffer to 1
                v.push(pos(A, 0, 1000, DAY));
                v.push(pos(B, 0, 1000, 100 * DAY));
                v.push(farm_op(fee, C, 0, Some(1), Some(6), ("uusdc", 5000), Some("b1")));
                v.push(farm_op(fee, C, 0, Some(1), Some(6), ("uom", 5000), Some("b2")));
                v.push(FuOp::SetCfg { u: OWNER, field: "epoch_buffer".into(), val: 1 });
                v.push(FuOp::Advance { secs: DAY });
                v.push(FuOp::Advance { secs: DAY });
            }
            "F17" => {
                // F3 (A staked in lp0 and lp1), then A claims, closes the lp0 position by naming its whole amount, and closes the lp1 one
                v = self.seed_ops("F3");
                v.push(FuOp::Claim { u: A, until: None });
                v.push(FuOp::ClosePos { u: A, id: "p-1".into(), partial: Some((0, 1000)) });
                v.push(FuOp::ClosePos { u: A, id: "p-2".into(), partial: None });
            }
            "F18" => {
                // F2, then the owner re-points pool_manager_addr to an unrelated account (positions on the old LP tokens keep earning)
                v = self.seed_ops("F2");
                v.push(FuOp::SetCfg { u: OWNER, field: "pool_manager".into(), val: C as u64 });
            }
            "F21" => {
                // F2, then the pool manager is redeployed: a second instance holds a pool with the same identifier (its LP token has
                // the same symbol under another creator) and the farm manager's owner points pool_manager_addr at it
                v = self.seed_ops("F2");
                v.push(FuOp::SetCfg { u: OWNER, field: "second_pool_manager".into(), val: 0 });
            }
            "F19" => {
                // two farms paying the same denom one after the other; A claims 8 epochs of the first; the epoch manager's owner
                // then restarts the epoch numbering (genesis an hour ahead); B stakes 99x as much at the new epoch 0; ten new epochs pass
                v.push(pos(A, 0, 1000, DAY));
                v.push(farm_op(fee, C, 0, Some(1), Some(11), ("uusdc", 1000), Some("e1")));
                v.push(farm_op(fee, C, 0, Some(12), Some(22), ("uusdc", 1000), Some("e2")));
                v.push(FuOp::Advance { secs: 8 * DAY });
                v.push(FuOp::Claim { u: A, until: None });
                v.push(FuOp::EpochReconfig { secs_ahead: 3600 });
                v.push(FuOp::Advance { secs: 3601 });
                v.push(pos(B, 0, 99_000, DAY));
                v.push(FuOp::Advance { secs: 10 * DAY });
            }
            "F22" => {
                // a sixty-epoch farm; B joins two epochs after A; forty quiet epochs; A claims for the first time; one more epoch
                // passes (A's next claim starts long after the last change of the total weight)
                v.push(pos(A, 0, 5000, DAY));
                v.push(farm_op(fee, C, 0, Some(1), Some(61), ("uusdc", 60_000), Some("lg")));
                v.push(FuOp::Advance { secs: DAY });
                v.push(FuOp::Advance { secs: DAY });
                v.push(pos(B, 0, 5000, DAY));
                v.push(FuOp::Advance { secs: 40 * DAY });
                v.push(FuOp::Claim { u: A, until: None });
                v.push(FuOp::Advance { secs: DAY });
            }
            "F20" => {
                // A already holds ten open positions (all on lp1); B stakes lp0; a farm runs on lp0
                for _ in 0..10 {
                    v.push(pos(A, 1, 10, DAY));
                }
                v.push(pos(B, 0, 5000, DAY));
                v.push(farm_op(fee, C, 0, Some(1), Some(6), ("uusdc", 5000), Some("t")));
                v.push(FuOp::Advance { secs: DAY });
            }
            "F12" => {
                // the LP token is at its limit of concurrent farms (2) and every farm ever created had an explicit identifier
                v.push(pos(A, 0, 1000, DAY));
                v.push(farm_op(fee, C, 0, Some(1), Some(5), ("uusdc", 4000), Some("k1")));
                v.push(farm_op(fee, OWNER, 0, Some(1), Some(5), ("uusdc", 4000), Some("k2")));
            }
            "F13" => {
                // F2, then 45 days without any interaction: the farm ended more than the expiration time ago, nobody closed it,
                // and both stakers still have all of its epochs to claim
                v = self.seed_ops("F2");
                v.push(FuOp::Advance { secs: 45 * DAY });
            }
            "F6" => {
                // more farms on one LP token than one page of the farm listing (needs max_concurrent_farms >= 12)
                v.push(pos(A, 0, 1000, DAY));
                v.push(pos(B, 0, 1000, 100 * DAY));
                for i in 1..=11u32 {
                    let rd = if i == 11 { "uom" } else { "uusdc" };
                    v.push(farm_op(fee, C, 0, Some(1), Some(4), (rd, 3000), Some(&format!("f{i:02}"))));
                }
                v.push(FuOp::Advance { secs: DAY });
                v.push(FuOp::Advance { secs: DAY });
            }
            _ => panic!("MACHINERY: unknown FU seed {name}"),
        }
        v
    }
}

pub fn enabled(c: &FuChecker, w: &World, pre: &FuObs, g: &FuGhost) -> Vec<FuOp> {
    let mut ops: Vec<FuOp> = vec![];
    let a = c.alpha;
    let cur = pre.cur;
    let users = [A, B];
    let cur_fee: (String, u128) = pre.cfg.as_ref().map(|x| (x.create_farm_fee.denom.clone(), x.create_farm_fee.amount.u128())).unwrap_or(c.farm_fee.clone());
    let fee = &cur_fee;
    // ---- time
    ops.push(FuOp::Advance { secs: DAY });
    if matches!(a, FAlpha::Full | FAlpha::Positions | FAlpha::Farms) {
        // event-driven jumps: closed positions' unlock instants, farms' expiry instants
        let mut instants: BTreeSet<u64> = BTreeSet::new();
        for p in &pre.positions {
            if let Some(t) = p.expiring_at {
                instants.insert(t - 1);
                instants.insert(t);
            }
        }
        if let Some(cfg) = &pre.cfg {
            for f in &pre.farms {
                let t = GENESIS + (f.preliminary_end_epoch + 1) * DAY + cfg.farm_expiration_time;
                instants.insert(t);
                instants.insert(t + 1);
            }
        }
        for t in instants {
            if t > pre.now && t - pre.now != DAY {
                ops.push(FuOp::Advance { secs: t - pre.now });
            }
        }
    }
    let n_lps: usize = if matches!(a, FAlpha::Full | FAlpha::Reward) { 2 } else { 1 };
    // ---- positions
    if !matches!(a, FAlpha::Farms) {
        for &u in &users {
            let mine: Vec<&fm::Position> = pre.positions.iter().filter(|p| p.receiver == w.users[u]).collect();
            if matches!(a, FAlpha::Full | FAlpha::Positions) && pre.cfg.as_ref().map_or(false, |c| c.pool_manager_addr != w.pool_manager) {
                // after a re-pointing of pool_manager_addr: new positions in the configured pool manager's LP token
                ops.push(pos(u, 2, 1000, DAY));
                ops.push(pos(u, 2, 7, 100 * DAY));
            }
            if !matches!(a, FAlpha::RewardCore) {
                for lp in 0..n_lps {
                    match a {
                        FAlpha::Positions => {
                            for amount in [3u128, 7, 1000] {
                                for dur in [DAY, 100 * DAY] {
                                    ops.push(pos(u, lp, amount, dur));
                                }
                            }
                            // explicit identifiers that collide with existing (open, closed, other users') positions
                            ops.push(FuOp::CreatePos { u, lp, amount: 5, dur: DAY, id: Some("1".into()), recv: None });
                            ops.push(FuOp::CreatePos { u, lp, amount: 5, dur: DAY, id: Some("k".into()), recv: None });
                            // the pool manager as delegate: locked deposit creating a position
                            ops.push(FuOp::ProvideLock { u, lp, amount: 5000, dur: DAY, lock_id: None });
                        }
                        _ => {
                            ops.push(pos(u, lp, 1000, DAY));
                            ops.push(pos(u, lp, 3, 100 * DAY));
                        }
                    }
                }
            }
            if matches!(a, FAlpha::Full | FAlpha::Reward) && !pre.positions.iter().any(|p| p.identifier == "u-zz") {
                // a new, named position created through the pool manager (its identifier sorts after every generated one)
                ops.push(FuOp::ProvideLock { u, lp: 0, amount: 5000, dur: DAY, lock_id: Some("zz".into()) });
            }
            if a == FAlpha::Full {
                // explicit identifiers chosen to collide, create-for-other, via pool manager
                ops.push(FuOp::CreatePos { u, lp: 0, amount: 1000, dur: DAY, id: Some("1".into()), recv: None });
                ops.push(FuOp::CreatePos { u, lp: 0, amount: 1000, dur: DAY, id: Some("p-1".into()), recv: None });
                ops.push(FuOp::CreatePos { u, lp: 0, amount: 5, dur: DAY, id: None, recv: Some(if u == A { B } else { A }) });
                ops.push(FuOp::ProvideLock { u, lp: 0, amount: 5000, dur: DAY, lock_id: None });
                ops.push(FuOp::CreatePos { u, lp: 0, amount: 5, dur: DAY - 1, id: None, recv: None });
            }
            for p in mine.iter().take(3) {
                let li = pre.lp_index(&p.lp_asset.denom).unwrap_or(0);
                let amt = p.lp_asset.amount.u128();
                if p.open {
                    ops.push(FuOp::ExpandPos { u, id: p.identifier.clone(), lp: li, amount: 3 });
                    ops.push(FuOp::ClosePos { u, id: p.identifier.clone(), partial: None });
                    if matches!(a, FAlpha::Full | FAlpha::Positions) {
                        ops.push(FuOp::ClosePos { u, id: p.identifier.clone(), partial: Some((li, 0)) }); // closing nothing
                    }
                    if amt > 1 {
                        ops.push(FuOp::ClosePos { u, id: p.identifier.clone(), partial: Some((li, 1)) });
                        if a != FAlpha::RewardCore && amt > 2 {
                            ops.push(FuOp::ClosePos { u, id: p.identifier.clone(), partial: Some((li, amt - 1)) });
                        }
                    }
                    if matches!(a, FAlpha::Full | FAlpha::Positions) && pre.cfg.as_ref().map_or(false, |c| c.pool_manager_addr != w.pool_manager) {
                        // after a re-pointing of pool_manager_addr: top-up with the configured pool manager's token of the same symbol
                        ops.push(FuOp::ExpandPos { u, id: p.identifier.clone(), lp: 2, amount: 500 });
                    }
                    if matches!(a, FAlpha::Full | FAlpha::Positions) {
                        // a small locked deposit into the OTHER pool naming this position (whose LP token is not that pool's)
                        ops.push(FuOp::ProvideLock { u, lp: 1 - li.min(1), amount: 300, dur: p.unlocking_duration, lock_id: Some(p.identifier.clone()) });
                    }
                    if matches!(a, FAlpha::Full | FAlpha::Positions | FAlpha::Reward) {
                        // the pool manager tops up this position on behalf of its owner
                        ops.push(FuOp::ProvideLock { u, lp: li, amount: 5000, dur: p.unlocking_duration, lock_id: Some(p.identifier.clone()) });
                    }
                    if matches!(a, FAlpha::Full | FAlpha::Positions) {
                        // a "partial" close of exactly everything; operations carrying the other LP token
                        ops.push(FuOp::ClosePos { u, id: p.identifier.clone(), partial: Some((li, amt)) });
                        ops.push(FuOp::ExpandPos { u, id: p.identifier.clone(), lp: 1 - li.min(1), amount: 3 });
                        ops.push(FuOp::ClosePos { u, id: p.identifier.clone(), partial: Some((1 - li.min(1), 1)) });
                    }
                    if a == FAlpha::Full {
                        ops.push(FuOp::ClosePos { u, id: p.identifier.clone(), partial: Some((li, amt + 1)) });
                    }
                } else if matches!(a, FAlpha::Full | FAlpha::Positions) {
                    // a locked deposit through the pool manager naming the closed position
                    ops.push(FuOp::ProvideLock { u, lp: li, amount: 5000, dur: p.unlocking_duration, lock_id: Some(p.identifier.clone()) });
                    // closing / topping up a position that is already closed (whole, by its exact amount, one unit of it)
                    ops.push(FuOp::ClosePos { u, id: p.identifier.clone(), partial: None });
                    ops.push(FuOp::ClosePos { u, id: p.identifier.clone(), partial: Some((li, amt)) });
                    if amt > 1 {
                        ops.push(FuOp::ClosePos { u, id: p.identifier.clone(), partial: Some((li, 1)) });
                    }
                    ops.push(FuOp::ExpandPos { u, id: p.identifier.clone(), lp: li, amount: 3 });
                }
                ops.push(FuOp::WithdrawPos { u, id: p.identifier.clone(), emergency: Some(true) });
                if !p.open || a == FAlpha::Full {
                    ops.push(FuOp::WithdrawPos { u, id: p.identifier.clone(), emergency: None });
                }
                if !p.open && matches!(a, FAlpha::Full | FAlpha::Positions) {
                    // the same normal withdrawal with the flag spelled out
                    ops.push(FuOp::WithdrawPos { u, id: p.identifier.clone(), emergency: Some(false) });
                }
                if matches!(a, FAlpha::Full | FAlpha::Positions) {
                    if let Some(bare) = p.identifier.strip_prefix("u-") {
                        // the name the owner typed, without the prefix the farm manager stores it under: no position has it
                        let bare = bare.to_string();
                        let o = if u == A { B } else { A };
                        ops.push(FuOp::ClosePos { u, id: bare.clone(), partial: None });
                        ops.push(FuOp::WithdrawPos { u, id: bare.clone(), emergency: None });
                        ops.push(FuOp::WithdrawPos { u, id: bare.clone(), emergency: Some(true) });
                        ops.push(FuOp::ExpandPos { u, id: bare.clone(), lp: li, amount: 3 });
                        ops.push(FuOp::ProvideLock { u, lp: li, amount: 5000, dur: p.unlocking_duration, lock_id: Some(bare.clone()) });
                        ops.push(FuOp::ProvideLock { u: o, lp: li, amount: 5000, dur: p.unlocking_duration, lock_id: Some(bare.clone()) });
                        ops.push(FuOp::ProvideLockSingle { u: o, lp: li, amount: 10_001, dur: p.unlocking_duration, lock_id: Some(bare) });
                    }
                    // the other user tries to manage this position
                    let o = if u == A { B } else { A };
                    if p.open {
                        // ... including through the pool manager (balanced and single-asset locked deposits into it)
                        ops.push(FuOp::ProvideLock { u: o, lp: li, amount: 5000, dur: p.unlocking_duration, lock_id: Some(p.identifier.clone()) });
                        ops.push(FuOp::ProvideLockSingle { u: o, lp: li, amount: 10_001, dur: p.unlocking_duration, lock_id: Some(p.identifier.clone()) });
                        ops.push(FuOp::ProvideLockSingle { u, lp: li, amount: 10_001, dur: p.unlocking_duration, lock_id: Some(p.identifier.clone()) });
                    }
                    ops.push(FuOp::ExpandPos { u: o, id: p.identifier.clone(), lp: li, amount: 3 });
                    ops.push(FuOp::ClosePos { u: o, id: p.identifier.clone(), partial: None });
                    ops.push(FuOp::WithdrawPos { u: o, id: p.identifier.clone(), emergency: Some(true) });
                    ops.push(FuOp::WithdrawPos { u: o, id: p.identifier.clone(), emergency: Some(false) });
                }
            }
        }
    } else {
        // Farms alphabet: one small position universe
        if !pre.positions.iter().any(|p| p.receiver == w.users[A]) {
            ops.push(pos(A, 0, 1000, DAY));
        }
    }
    // ---- claims
    if !matches!(a, FAlpha::Positions) {
        for &u in &users {
            if a == FAlpha::Farms && u == B {
                continue;
            }
            ops.push(FuOp::Claim { u, until: None });
            if cur >= 1 {
                ops.push(FuOp::Claim { u, until: Some(cur - 1) });
            }
            if cur >= 2 && a != FAlpha::Farms {
                ops.push(FuOp::Claim { u, until: Some(cur - 2) });
            }
            if a == FAlpha::Full {
                ops.push(FuOp::Claim { u, until: Some(cur + 1) });
                if let Some(l) = g.last_claimed.get(&u) {
                    if *l + 2 < cur {
                        ops.push(FuOp::Claim { u, until: Some(*l) });
                    }
                }
            }
        }
    }
    // ---- farms
    if !matches!(a, FAlpha::Positions | FAlpha::RewardCore) {
        let rd = c.reward_denoms[0];
        let n_farm_lps = if a == FAlpha::Farms { 1 } else { n_lps };
        for lp in 0..n_farm_lps {
            let on_lp = pre.farms.iter().filter(|f| f.lp_denom == pre.lps[lp]).count();
            let max_farms = pre.cfg.as_ref().map(|x| x.max_concurrent_farms as usize).unwrap_or(usize::MAX);
            if on_lp >= 3 && on_lp + 1 >= max_farms {
                // at (or one below) the configured limit of concurrent farms: one more creation is still attempted
                ops.push(farm_op(fee, C, lp, Some(cur + 1), Some(cur + 3), (rd, 2000), None));
            }
            if on_lp < 3 {
                ops.push(farm_op(fee, C, lp, Some(cur + 1), Some(cur + 3), (rd, 2000), None));
                if matches!(a, FAlpha::Full | FAlpha::Farms) {
                    // a long, small farm: emission 20/epoch with 40 units of rounding dust in the budget
                    ops.push(farm_op(fee, C, lp, Some(cur + 1), Some(cur + 49), (rd, 1000), Some("d")));
                    ops.push(farm_op(fee, C, lp, Some(cur + 2), Some(cur + 6), (rd, 4000), Some("x")));
                    ops.push(farm_op(fee, OWNER, lp, None, None, (rd, 14_000), None));
                }
                if a == FAlpha::Full && c.reward_denoms.len() > 1 {
                    ops.push(farm_op(fee, C, lp, Some(cur + 1), Some(cur + 3), (c.reward_denoms[1], 2000), None));
                }
            }
        }
        if matches!(a, FAlpha::Full | FAlpha::Farms) {
            // epoch / amount shapes outside the valid range: starting now or in the past, ending at or before the start,
            // starting beyond the configured buffer, a reward below the minimum
            let buf = pre.cfg.as_ref().map(|x| x.max_farm_epoch_buffer as u64).unwrap_or(14);
            ops.push(farm_op(fee, C, 0, Some(cur), Some(cur + 3), (rd, 3000), Some("e1")));
            if cur >= 1 {
                ops.push(farm_op(fee, C, 0, Some(cur - 1), Some(cur + 3), (rd, 4000), Some("e2")));
            }
            ops.push(farm_op(fee, C, 0, Some(cur + 2), Some(cur + 2), (rd, 2000), Some("e3")));
            ops.push(farm_op(fee, C, 0, Some(cur + 2), Some(cur + 1), (rd, 2000), Some("e4")));
            ops.push(farm_op(fee, C, 0, Some(cur + buf + 1), Some(cur + buf + 3), (rd, 2000), Some("e5")));
            ops.push(farm_op(fee, C, 0, Some(cur + 1), Some(cur + 3), (rd, 998), Some("e6")));
            // fund shapes: overpaid fee, underpaid fee, extra coin, missing fee coin
            let base = farm_op(fee, C, 0, Some(cur + 1), Some(cur + 3), (rd, 2000), Some("f"));
            if let FuOp::CreateFarm { u, lp, start, end, reward, id, funds } = base.clone() {
                let mk = |funds: Funds| FuOp::CreateFarm { u, lp, start, end, reward: reward.clone(), id: id.clone(), funds };
                if fee.1 > 0 {
                    let mut over = funds.clone();
                    for f in over.iter_mut() {
                        if f.0 == fee.0 {
                            f.1 += 5;
                        }
                    }
                    ops.push(mk(over));
                    let mut under = funds.clone();
                    for f in under.iter_mut() {
                        if f.0 == fee.0 {
                            f.1 -= 1;
                        }
                    }
                    ops.push(mk(under));
                    let missing: Funds = funds.iter().filter(|f| f.0 != fee.0 || f.0 == reward.0).cloned().collect();
                    if missing.len() != funds.len() {
                        ops.push(mk(missing));
                    }
                }
                let mut extra = funds.clone();
                extra.push(("uweth".into(), 777));
                ops.push(mk(extra));
                if fee.1 == 0 && fee.0 != reward.0 {
                    // no fee is charged, yet a coin in the fee's denom is attached (a client still paying the old fee)
                    let mut stale = funds.clone();
                    stale.push((fee.0.clone(), 1000));
                    ops.push(mk(stale));
                }
                if fee.1 >= 1000 && fee.0 == reward.0 {
                    // fee and reward share a denom and the creator attaches the fee only, declaring a reward of that same size
                    ops.push(FuOp::CreateFarm { u, lp, start, end, reward: (reward.0.clone(), fee.1), id: Some("g".into()), funds: vec![(fee.0.clone(), fee.1)] });
                }
                let mut less = funds.clone();
                for f in less.iter_mut() {
                    if f.0 == reward.0 {
                        f.1 -= 1;
                    }
                }
                ops.push(mk(less));
            }
        }
        for f in pre.farms.iter().take(3) {
            let li = pre.lp_index(&f.lp_denom).unwrap_or(0);
            let owner = acc_index(w, &f.owner).unwrap_or(C);
            let rate = f.emission_rate.u128();
            let den = f.farm_asset.denom.clone();
            let rd_name = if den == pre.lps[0] { "lp0".to_string() } else if den == pre.lps[1] { "lp1".to_string() } else { den.clone() };
            ops.push(FuOp::ExpandFarm { u: owner, id: f.identifier.clone(), lp: li, reward: (rd_name.clone(), rate), funds: vec![(rd_name.clone(), rate)] });
            ops.push(FuOp::CloseFarm { u: owner, id: f.identifier.clone() });
            if matches!(a, FAlpha::Full | FAlpha::Farms) {
                ops.push(FuOp::ExpandFarm { u: owner, id: f.identifier.clone(), lp: li, reward: (rd_name.clone(), 2 * rate), funds: vec![(rd_name.clone(), 2 * rate)] });
                ops.push(FuOp::ExpandFarm { u: owner, id: f.identifier.clone(), lp: li, reward: (rd_name.clone(), rate + 1), funds: vec![(rd_name.clone(), rate + 1)] });
                ops.push(FuOp::ExpandFarm { u: A, id: f.identifier.clone(), lp: li, reward: (rd_name.clone(), rate), funds: vec![(rd_name.clone(), rate)] });
                // the declared amount differs from the coin attached (more, and less)
                ops.push(FuOp::ExpandFarm { u: owner, id: f.identifier.clone(), lp: li, reward: (rd_name.clone(), 4 * rate), funds: vec![(rd_name.clone(), rate)] });
                ops.push(FuOp::ExpandFarm { u: owner, id: f.identifier.clone(), lp: li, reward: (rd_name.clone(), rate), funds: vec![(rd_name.clone(), 2 * rate)] });
                // expansion in another denom than the farm's reward
                let other = if rd_name == "uom" { "uusdc".to_string() } else { "uom".to_string() };
                ops.push(FuOp::ExpandFarm { u: owner, id: f.identifier.clone(), lp: li, reward: (other.clone(), rate), funds: vec![(other, rate)] });
                ops.push(FuOp::CloseFarm { u: OWNER, id: f.identifier.clone() });
                ops.push(FuOp::CloseFarm { u: A, id: f.identifier.clone() });
            }
        }
    }
    if a == FAlpha::Full {
        let pen = pre.cfg.as_ref().map(|c| c.emergency_unlock_penalty).unwrap_or(Decimal::percent(10));
        ops.push(FuOp::SetPenalty { u: OWNER, pct: if pen == Decimal::percent(10) { 50 } else { 10 } });
        ops.push(FuOp::SetPenalty { u: A, pct: 0 });
        // the owner changes the farm creation fee: zero, and into the reward denom
        let f = pre.cfg.as_ref().map(|c| c.create_farm_fee.clone());
        if f.as_ref().map_or(false, |f| !f.amount.is_zero()) {
            ops.push(FuOp::SetFarmFee { u: OWNER, denom: "uom".into(), amt: 0 });
            ops.push(FuOp::SetFarmFee { u: OWNER, denom: "uusdc".into(), amt: 0 });
        } else {
            ops.push(FuOp::SetFarmFee { u: OWNER, denom: "uusdc".into(), amt: 1000 });
        }
        ops.push(FuOp::SetFarmFee { u: B, denom: "uom".into(), amt: 0 });
        // other owner configuration: each field once, to an unusual but valid value
        if let Some(cf) = &pre.cfg {
            if cf.max_concurrent_farms < 3 {
                ops.push(FuOp::SetCfg { u: OWNER, field: "max_farms".into(), val: 3 });
            }
            if cf.max_farm_epoch_buffer > 2 {
                ops.push(FuOp::SetCfg { u: OWNER, field: "epoch_buffer".into(), val: 2 });
                ops.push(FuOp::SetCfg { u: OWNER, field: "epoch_buffer".into(), val: 1 });
                ops.push(FuOp::SetCfg { u: OWNER, field: "epoch_buffer".into(), val: 0 });
            }
            if cf.min_unlocking_duration == DAY {
                ops.push(FuOp::SetCfg { u: OWNER, field: "min_unlock".into(), val: 2 * DAY });
            }
            if cf.max_unlocking_duration > 200 * DAY {
                ops.push(FuOp::SetCfg { u: OWNER, field: "max_unlock".into(), val: 50 * DAY });
            }
            // values the contract must refuse: fewer concurrent farms than before, an empty unlocking range, an expiration
            // time below a month, a penalty above 100 %
            ops.push(FuOp::SetCfg { u: OWNER, field: "max_farms".into(), val: cf.max_concurrent_farms.saturating_sub(1) as u64 });
            ops.push(FuOp::SetCfg { u: OWNER, field: "min_unlock".into(), val: cf.max_unlocking_duration + 1 });
            ops.push(FuOp::SetCfg { u: OWNER, field: "farm_expiration".into(), val: mantra_dex_std::constants::MONTH_IN_SECONDS - 1 });
            ops.push(FuOp::SetPenalty { u: OWNER, pct: 101 });
            if cf.farm_expiration_time == mantra_dex_std::constants::MONTH_IN_SECONDS {
                ops.push(FuOp::SetCfg { u: OWNER, field: "farm_expiration".into(), val: 2 * mantra_dex_std::constants::MONTH_IN_SECONDS });
            }
        }
    }
    ops
}

impl Checker for FuChecker {
    type Op = FuOp;
    type Ghost = FuGhost;
    type Pre = FuObs;
    fn name(&self) -> String {
        self.name.clone()
    }
    fn cfg(&self) -> WorldCfg {
        WorldCfg { max_concurrent_farms: self.max_farms, ..cfg_with_fee(&self.farm_fee) }
    }
    fn seeds(&self) -> Vec<(String, Vec<FuOp>)> {
        self.seeds.iter().map(|s| (s.to_string(), self.seed_ops(s))).collect()
    }
    fn pre(&self, w: &mut World, _g: &FuGhost) -> FuObs {
        observe(w)
    }
    fn enabled(&self, w: &mut World, g: &FuGhost, pre: &FuObs) -> Vec<FuOp> {
        enabled(self, w, pre, g)
    }
    fn apply(&self, w: &mut World, op: &FuOp) -> bool {
        apply(w, op).is_ok()
    }
    fn step(&self, w: &mut World, g: &FuGhost, pre: &FuObs, op: &FuOp, rec: &mut Rec) -> Option<FuGhost> {
        let mut rewards_q = None;
        let mut expected = None;
        if let FuOp::Claim { u, until } = op {
            let r: Result<fm::RewardsResponse, String> = w.query(&w.farm_manager, &fm::QueryMsg::Rewards { address: w.users[*u].to_string(), until_epoch: *until });
            rewards_q = Some(match r {
                Ok(fm::RewardsResponse::RewardsResponse { total_rewards, .. }) => Ok(total_rewards.into_iter().map(|c| (c.denom, c.amount.u128())).collect()),
                Ok(_) => Err("unexpected response variant".into()),
                Err(e) => Err(e),
            });
            expected = expected_claim(pre, g, *u, w, *until);
        }
        let s0 = w.snapshot();
        let out = apply(w, op);
        let post = observe(w);
        let unchanged = w.app.storage().data == s0.storage.data;
        let g1 = if out.is_ok() { ghost_step(w, g, op, pre, &post, &expected) } else { g.clone() };
        let ctx = FuCtx { w, op, pre, post: &post, out: &out, g0: g, g1: &g1, s0: &s0, storage_unchanged: unchanged, rewards_q, expected };
        for o in &self.oracles {
            o(&ctx, rec);
        }
        if out.is_ok() {
            Some(g1)
        } else {
            None
        }
    }
    fn on_new_state(&self, w: &mut World, g: &FuGhost, rec: &mut Rec) {
        for o in &self.state_oracles {
            o(self, w, g, rec);
        }
    }
}
