#![allow(dead_code, unused_imports, unused_variables)]
mod engine;
mod exact;
mod props;
mod pu;
mod fu;
mod report;
mod world;

use report::*;

fn usage() -> ! {
    eprintln!("usage: mcheck <C01..C20> [--tier quick|thorough] | mcheck replay <path>");
    std::process::exit(2)
}

fn main() {
    // contract panics are VM traps: caught, classified, never printed
    std::panic::set_hook(Box::new(|info| {
        if !world::IN_CONTRACT.with(|c| c.get()) {
            eprintln!("MACHINERY PANIC: {info}");
        }
    }));
    let args: Vec<String> = std::env::args().skip(1).collect();
    if args.is_empty() {
        usage();
    }
    let mut tier = match std::env::var("VERIF_TIER").as_deref() {
        Ok("thorough") => Tier::Thorough,
        _ => Tier::Quick,
    };
    if let Some(i) = args.iter().position(|a| a == "--tier") {
        tier = match args.get(i + 1).map(|s| s.as_str()) {
            Some("thorough") => Tier::Thorough,
            Some("quick") => Tier::Quick,
            _ => usage(),
        };
    }
    if args[0] == "replay" {
        let path = args.get(1).unwrap_or_else(|| usage());
        let v: serde_json::Value = serde_json::from_str(&std::fs::read_to_string(path).expect("read replay file")).expect("parse replay file");
        let prop = v["property"].as_str().unwrap().to_string();
        let t = if v["tier"].as_str() == Some("thorough") { Tier::Thorough } else { Tier::Quick };
        let (_, jobs) = props::jobs(&prop, t).unwrap_or_else(|| usage());
        let job = jobs.into_iter().find(|j| Some(j.name.as_str()) == v["job"].as_str()).expect("job named in replay file");
        let rec = (job.replay)(&v);
        let want = v["kind"].as_str().unwrap_or("");
        let mut hit = false;
        for vi in &rec.viols {
            println!("replay: oracle reports kind={} :: {}", vi.kind, vi.detail);
            if vi.kind == want {
                hit = true;
            }
        }
        if hit {
            println!("REPRODUCED property={} kind={}", prop, want);
            std::process::exit(1);
        }
        println!("NOT-REPRODUCED property={} kind={}", prop, want);
        std::process::exit(0);
    }
    let prop = args[0].to_uppercase();
    let (level, jobs) = props::jobs(&prop, tier).unwrap_or_else(|| usage());
    let mut rep = Report::new(&prop, tier, level);
    props::configure(&prop, &mut rep);
    rep.run(jobs);
    std::process::exit(rep.finish());
}
