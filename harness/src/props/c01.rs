//! C01 — pool reserves fully backed (ledger equality), locked LP, no buffer residue.
use crate::engine::*;
use crate::pu::*;
use crate::report::*;

pub fn oracle(c: &PuCtx, rec: &mut Rec) {
    if !c.out.is_ok() {
        if !c.storage_unchanged {
            rec.viol("C01_rejected_changed_state", format!("rejected op changed chain storage: {}", c.out.err_text()));
        }
        return;
    }
    rec.validated += 1;
    let post = c.post;
    // every denom the pool manager holds or any pool reports
    let mut denoms: std::collections::BTreeSet<String> = post.bal[PM].keys().cloned().collect();
    for p in &post.pools {
        for a in &p.pool_info.assets {
            denoms.insert(a.denom.clone());
        }
        denoms.insert(p.pool_info.lp_denom.clone());
    }
    for d in &denoms {
        let have = post.b(PM, d);
        if let Some(p) = post.pools.iter().find(|p| &p.pool_info.lp_denom == d) {
            // LP denom: only the permanently locked minimum
            // ... plus LP a depositor explicitly had minted to the pool manager (receiver = the contract): a gift, booked like a donation
            let gifted = c.g1.donated.get(d).copied().unwrap_or(0);
            let want = c.g1.locked.get(&p.pool_info.pool_identifier).copied().unwrap_or(0);
            if have != want + gifted {
                rec.viol("C01_lp_held", format!("pool manager holds {have} of {d}, locked minimum observed at first deposit is {want}, gifted by depositors {gifted}"));
            }
            if post.sup(d) > 0 && want == 0 {
                rec.viol("C01_no_locked_minimum", format!("{d} has supply {} but nothing locked", post.sup(d)));
            }
            let holders: u128 = (0..post.bal.len()).map(|a| post.b(a, d)).sum();
            if holders != post.sup(d) {
                rec.viol("C01_lp_supply", format!("{d}: supply {} != sum of holders {holders}", post.sup(d)));
            }
            continue;
        }
        let reserves: u128 = post.pools.iter().flat_map(|p| p.pool_info.assets.iter()).filter(|a| &a.denom == d).map(|a| a.amount.u128()).sum();
        let ledger = c.g1.donated.get(d).copied().unwrap_or(0) + c.g1.odd.get(d).copied().unwrap_or(0);
        if have < reserves {
            rec.viol("C01_underbacked", format!("{d}: bank {have} < reserves {reserves}"));
        } else if have != reserves + ledger {
            rec.viol("C01_unexplained_excess", format!("{d}: bank {have} != reserves {reserves} + donated/odd ledger {ledger}"));
        }
    }
    // locked minimum is constant for ever
    for (id, l0) in &c.g0.locked {
        if c.g1.locked.get(id) != Some(l0) {
            rec.viol("C01_locked_changed", format!("{id}: {l0} -> {:?}", c.g1.locked.get(id)));
        }
    }
    if c.buffer_present {
        rec.viol("C01_buffer_left", "single-side liquidity buffer present in committed storage".into());
    }
}

pub fn jobs(tier: Tier) -> Vec<Job> {
    let full = PuChecker { name: "c01-pu-full".into(), seeds: vec!["S0", "S1", "S2", "S2r", "S3", "S4", "S5", "S6", "S7", "S8", "S8a", "S9"], alpha: Alpha::Full, oracles: vec![oracle] };
    let core = PuChecker { name: "c01-pu-core".into(), seeds: vec!["S2", "S4"], alpha: Alpha::SwapFocus, oracles: vec![oracle] };
    vec![explore_job(full, tier.pick(2, 3), Caps::default()), explore_job(core, tier.pick(3, 4), Caps::default())]
}
