//! C02 — deposits and withdrawals never dilute. (a) transition oracle on every edge of PU;
//! (b) exhaustive deposit/withdraw grid on prepared pools, same oracle.
use crate::engine::*;
use crate::exact::*;
use crate::pu::*;
use crate::report::*;
use mantra_dex_std::pool_manager as pm;
use num_bigint::BigInt;

pub const K: u32 = 6;

pub fn d_exact_k(p: &pm::PoolInfo) -> Option<BigInt> {
    if let pm::PoolType::StableSwap { amp } = p.pool_type {
        let maxd = *p.asset_decimals.iter().max().unwrap() as u32;
        let xs: Vec<BigInt> = p.assets.iter().map(|c| scale(c.amount.u128(), dec_of(p, &c.denom), maxd, K)).collect();
        Some(exact_d_floor(&xs, &(BigInt::from(amp) * BigInt::from(p.assets.len() as u64))))
    } else {
        None
    }
}

fn pool_key(p: &pm::PoolInfoResponse) -> String {
    format!("type={:?} dec={:?} res={:?} S={}", p.pool_info.pool_type, p.pool_info.asset_decimals, p.pool_info.assets.iter().map(|c| c.amount.u128()).collect::<Vec<_>>(), p.total_share.amount)
}

pub fn oracle(c: &PuCtx, rec: &mut Rec) {
    if c.post_malformed() {
        return; // a pool lost part of its reserve list (C16 reports it); nothing here is defined on such a state
    }
    // LP supply moves only through deposits into / withdrawals from that very pool
    for p in &c.post.pools {
        let lp = &p.pool_info.lp_denom;
        let id = &p.pool_info.pool_identifier;
        let ds = c.dsupply(lp);
        let allowed = matches!(c.op, PuOp::Provide { pool, .. } | PuOp::Withdraw { pool, .. } if pool == id);
        if ds != 0 && !allowed {
            rec.viol("C02_supply_changed_by_other_op", format!("{lp} supply changed by {ds} through {:?}", c.op));
        }
        if let Some(l) = c.g1.locked.get(id) {
            if c.post.sup(lp) < *l {
                rec.viol("C02_supply_below_locked_minimum", format!("{lp}: supply {} < locked {l}", c.post.sup(lp)));
            }
        }
    }
    match c.op {
        PuOp::Withdraw { u, pool, funds } => {
            let Some(pre_p) = c.pre.pool(pool) else { return };
            let lp = &pre_p.pool_info.lp_denom;
            if funds.len() != 1 || &funds[0].0 != lp {
                return;
            }
            let b = funds[0].1;
            let s0 = c.pre.sup(lp);
            if !c.out.is_ok() {
                // redeemability
                if b > 0 && c.pre.b(*u, lp) >= b && b <= s0 && pre_p.pool_info.status.withdrawals_enabled {
                    let worth = pre_p.pool_info.assets.iter().any(|a| big(a.amount.u128()) * big(b) >= big(s0));
                    if worth {
                        rec.viol("C02_unredeemable", format!("{}: withdrawing {b} LP (worth at least one unit of some asset) was refused: {}", pool_key(pre_p), c.out.err_text()));
                    }
                }
                return;
            }
            rec.validated += 1;
            rec.count("c02_withdraw_edges");
            if c.post.sup(lp) != s0 - b {
                rec.viol("C02_burn", format!("supply {} -> {} on withdrawal of {b}", s0, c.post.sup(lp)));
            }
            if c.delta(*u, lp) != -(b as i128) {
                rec.viol("C02_burn", format!("sender LP delta {} on withdrawal of {b}", c.delta(*u, lp)));
            }
            for a in &pre_p.pool_info.assets {
                let exact = big(a.amount.u128()) * big(b) / big(s0);
                let paid = BigInt::from(c.delta(*u, &a.denom));
                let res_drop = BigInt::from(a.amount.u128()) - BigInt::from(c.post.reserve(pool, &a.denom));
                if paid > exact {
                    rec.viol("C02_withdraw_overpaid", format!("{} {}: paid {paid} > reserve*burned/supply = {exact} (b={b})", pool_key(pre_p), a.denom));
                } else if paid < &exact - 1 {
                    rec.viol("C02_withdraw_underpaid", format!("{} {}: paid {paid} < floor(reserve*burned/supply) - 1 = {} (b={b})", pool_key(pre_p), a.denom, &exact - 1));
                }
                if res_drop != paid {
                    rec.viol("C02_withdraw_reserve", format!("{}: reserve fell by {res_drop}, paid {paid}", a.denom));
                }
            }
        }
        PuOp::Provide { u, pool, funds, lock, recv, .. } => {
            if !c.out.is_ok() {
                return;
            }
            let Some(pre_p) = c.pre.pool(pool) else { return };
            let Some(post_p) = c.post.pool(pool) else { return };
            rec.validated += 1;
            rec.count("c02_provide_edges");
            let lp = &pre_p.pool_info.lp_denom;
            let s0 = c.pre.sup(lp);
            let s1 = c.post.sup(lp);
            if s1 < s0 {
                rec.viol("C02_supply_fell_on_deposit", format!("{s0} -> {s1}"));
                return;
            }
            let minted = s1 - s0;
            let locked_now = c.delta(PM, lp);
            let dest = if lock.is_some() { FM } else { recv.filter(|r| *r != 99).unwrap_or(*u) }; // 99 = not an address: falls back to the sender
            let to_dest = c.delta(dest, lp);
            let bad = if dest == PM {
                // the depositor asked for the LP to be minted to the pool manager itself
                to_dest != minted as i128
            } else {
                to_dest + locked_now != minted as i128 || (s0 > 0 && locked_now != 0)
            };
            if bad {
                rec.viol("C02_mint_destination", format!("minted {minted}: destination #{dest} got {to_dest}, pool manager {locked_now}"));
            }
            let r0: Vec<u128> = pre_p.pool_info.assets.iter().map(|a| a.amount.u128()).collect();
            let r1: Vec<u128> = post_p.pool_info.assets.iter().map(|a| a.amount.u128()).collect();
            match pre_p.pool_info.pool_type {
                pm::PoolType::ConstantProduct => {
                    if s0 == 0 {
                        let root = isqrt(&(big(r1[0]) * big(r1[1])));
                        if big(minted) != root || locked_now <= 0 {
                            rec.viol("C02_cp_first_deposit", format!("deposit {:?}: supply {minted} (locked {locked_now}) vs floor(sqrt(ab)) = {root}", r1));
                        }
                    } else {
                        // value per LP never decreases: x1*y1*S0^2 >= x0*y0*S1^2
                        let l = big(r1[0]) * big(r1[1]) * big(s0) * big(s0);
                        let r = big(r0[0]) * big(r0[1]) * big(s1) * big(s1);
                        if l < r {
                            rec.viol("C02_cp_dilution", format!("{:?},S={s0} -> {:?},S={s1}", r0, r1));
                        }
                        if funds.len() == 2 {
                            let dep = |d: &str| funds.iter().find(|f| f.0 == d).map(|f| f.1).unwrap_or(0);
                            let a = big(dep(&pre_p.pool_info.assets[0].denom)) * big(s0) / big(r0[0]);
                            let b = big(dep(&pre_p.pool_info.assets[1].denom)) * big(s0) / big(r0[1]);
                            let m = a.min(b);
                            if m != big(minted) {
                                rec.viol("C02_cp_mint_formula", format!("minted {minted} expected min(dep_i*S/R_i) = {m}"));
                            }
                        }
                    }
                }
                pm::PoolType::StableSwap { .. } => {
                    let two = BigInt::from(2) * BigInt::from(10u32).pow(K);
                    let d1 = d_exact_k(&post_p.pool_info).unwrap();
                    let unit = BigInt::from(10u32).pow(K);
                    if s0 == 0 {
                        // supply after the first deposit equals D (to within the stated granularity)
                        if big(s1) * &unit > &d1 + &two {
                            let key = format!("first {} minted={minted}", pool_key(post_p));
                            rec.viol_kf("C02_ss_first_deposit_overmint", key, format!("first deposit {:?}: supply {s1} > exact D {} + 2", r1, &d1 / &unit));
                        }
                    } else {
                        // a single-asset deposit is a swap of half followed by a two-asset deposit (C14 checks that
                        // equivalence, C03 judges the swap leg): the mint is judged against the pool as the swap leaves it
                        let mut base_info = pre_p.pool_info.clone();
                        if funds.len() == 1 {
                            let other = pre_p.pool_info.assets.iter().find(|x| x.denom != funds[0].0).map(|x| x.denom.clone());
                            if let (Some(other), PuOp::Provide { swap_slip, .. }) = (other, c.op) {
                                let cfgw = cfg();
                                let after = crate::engine::with_scratch(&cfgw, c.s0, |w2| {
                                    let o = apply(w2, &PuOp::Swap { u: *u, pool: pool.clone(), offer: vec![(funds[0].0.clone(), funds[0].1 / 2)], ask: other, slip: *swap_slip, belief: None, recv: None });
                                    if o.is_ok() { observe_pool(w2, pool) } else { None }
                                });
                                match after {
                                    Some(p) => base_info = p.pool_info,
                                    None => {
                                        rec.count("c02_single_asset_swap_leg_not_reproducible");
                                        return;
                                    }
                                }
                            }
                        }
                        let d0 = d_exact_k(&base_info).unwrap();
                        let d0m = &d0 - &two;
                        if d0m > BigInt::from(0) {
                            // minted/S0 <= (D1 - D0)/D0 with D known to within two units, plus one LP unit of rounding
                            let lhs = big(minted) * &d0m;
                            let rhs = big(s0) * ((&d1 + &two) - &d0m) + &d0m;
                            if lhs > rhs {
                                let key = format!("{} dep={:?} minted={minted}", pool_key(pre_p), funds);
                                let fair = big(s0) * (&d1 - &d0) / &d0;
                                rec.viol_kf("C02_ss_overmint", key, format!("{} deposit {:?}: minted {minted}, proportional share of exact D growth is {fair} (D {} -> {})", pool_key(pre_p), funds, &d0 / &unit, &d1 / &unit));
                            }
                        }
                    }
                }
            }
        }
        _ => {}
    }
}

// ---- (b) grid
fn mkpool(fees: &FeeSpec, denoms: &[&str], decimals: &[u8], amp: Option<u64>) -> PuOp {
    PuOp::CreatePool { u: OWNER, denoms: denoms.iter().map(|s| s.to_string()).collect(), decimals: decimals.to_vec(), fees: fees.clone(), amp, id: Some("g".into()), funds: vec![("uom".into(), 8888), ("uusd".into(), 1000)] }
}
fn prov(u: usize, funds: Vec<(String, u128)>) -> PuOp {
    PuOp::Provide { u, pool: "o.g".into(), funds, lock: None, lock_id: None, recv: None, liq_slip: None, swap_slip: Some(5000) }
}
const DN: [&str; 4] = ["uom", "uusd", "uusdc", "uweth"];

pub fn grid_cases(tier: Tier) -> Vec<PuCase> {
    let mut v = vec![];
    let feesets = [zero_fees(), FeeSpec { p: 0, s: 30, b: 0, x: vec![] }, FeeSpec { p: 100, s: 100, b: 50, x: vec![50] }];
    // constant product: small exhaustive grid + magnitudes
    let n = tier.pick(6u128, 24u128);
    let mut cp_states: Vec<(u128, u128)> = vec![];
    for i in 0..n {
        for j in 0..n {
            cp_states.push((1001 + i * 3, 1001 + j * 5));
        }
    }
    for k in tier.pick(vec![6u32, 12, 18, 24, 30], (4..=30).step_by(2).collect::<Vec<_>>()) {
        for m in [1u128, 3] {
            cp_states.push((m * 10u128.pow(k), 10u128.pow(k)));
            cp_states.push((m * 10u128.pow(k) + 1, 10u128.pow(k) - 1));
            cp_states.push((10u128.pow(k), 7 * 10u128.pow(k.min(24))));
        }
    }
    for f in &feesets[..tier.pick(1, 2)] {
        for (x, y) in &cp_states {
            let setup = vec![mkpool(f, &["uom", "uusd"], &[6, 6], None), prov(OWNER, vec![("uom".into(), *x), ("uusd".into(), *y)])];
            let deps: Vec<(u128, u128)> = vec![(1, 1), (1, *y / 2 + 1), (*x / 3 + 1, *y / 3 + 1), (*x, *y), (*x * 3, *y), (7, 13), (*x / 1000 + 1, *y / 1000 + 2)];
            for (a, b) in deps {
                v.push(PuCase { setup: setup.clone(), op: prov(A, vec![("uom".into(), a), ("uusd".into(), b)]) });
            }
            for a in [*x / 10 + 1, (*x / 7) | 1] {
                v.push(PuCase { setup: setup.clone(), op: prov(A, vec![("uom".into(), a)]) });
            }
            // withdrawals by A after a proportional deposit
            let mut s2 = setup.clone();
            s2.push(prov(A, vec![("uom".into(), *x / 2 + 1), ("uusd".into(), *y / 2 + 1)]));
            for frac in [0u128, 1, 2, 3] {
                // amounts resolved at run time are not possible in a static case: use absolute LP amounts
                let lp = match frac {
                    0 => 1u128,
                    1 => 2,
                    2 => 999,
                    _ => isqrt(&(big(*x) * big(*y))).to_string().parse::<u128>().unwrap() / 3,
                };
                v.push(PuCase { setup: s2.clone(), op: PuOp::Withdraw { u: A, pool: "o.g".into(), funds: vec![("factory/LP".into(), lp)] } });
            }
        }
    }
    // stableswap
    let amps: Vec<u64> = tier.pick(vec![1, 100, 1_000_000], vec![1, 10, 100, 5000, 1_000_000]);
    let decsets: Vec<Vec<u8>> = tier.pick(vec![vec![6, 6], vec![6, 18], vec![8, 6], vec![6, 12, 18], vec![6, 18, 6], vec![6, 6, 6, 6]], vec![vec![6, 6], vec![6, 18], vec![18, 6], vec![8, 6], vec![6, 12], vec![6, 12, 18], vec![6, 18, 6], vec![6, 6, 6, 6], vec![6, 12, 18, 8]]);
    let mags: Vec<(u128, i32)> = tier.pick(vec![(2, -3), (3, 0), (1, 6), (1, 12)], vec![(2, -3), (5, -1), (3, 0), (100, 0), (1, 6), (1, 9), (1, 12)]);
    let skews = [1u128, 3, 1000];
    for f in &feesets {
        for amp in &amps {
            for decs in &decsets {
                let nn = decs.len();
                let dn: Vec<&str> = DN[..nn].to_vec();
                for (m, e) in &mags {
                    for skew in skews {
                        let mut res: Vec<u128> = vec![];
                        let mut ok = true;
                        for (i, d) in decs.iter().enumerate() {
                            let ex = *d as i32 + e;
                            if ex < 0 {
                                ok = false;
                                break;
                            }
                            let base = m * 10u128.pow(ex as u32);
                            res.push(if i == 0 { base * skew } else { base });
                        }
                        if !ok {
                            continue;
                        }
                        let funds0: Vec<(String, u128)> = dn.iter().zip(&res).map(|(d, r)| (d.to_string(), *r)).collect();
                        let setup = vec![mkpool(f, &dn, decs, Some(*amp)), prov(OWNER, funds0.clone())];
                        // the first deposit itself is a case
                        v.push(PuCase { setup: vec![setup[0].clone()], op: setup[1].clone() });
                        let shapes: Vec<Vec<(String, u128)>> = vec![
                            funds0.iter().map(|(d, r)| (d.clone(), r / 10 + 1)).collect(),
                            vec![(funds0[0].0.clone(), funds0[0].1 / 10 + 1)],
                            funds0.iter().skip(1).map(|(d, r)| (d.clone(), r / 10 + 1)).collect(),
                            funds0.iter().map(|(d, _)| (d.clone(), 1)).collect(),
                            funds0.iter().enumerate().map(|(i, (d, r))| (d.clone(), if i == 0 { 3 * (r / 10 + 1) } else { r / 10 + 1 })).collect(),
                        ];
                        for sh in &shapes {
                            v.push(PuCase { setup: setup.clone(), op: prov(A, sh.clone()) });
                        }
                        // the same pool created with its denoms in reverse (non-alphabetical) order, after a dust deposit carrying
                        // the deposit tolerance 1 (the only one a stableswap pool accepts): later deposits must be priced the same
                        if skew != 1000 && (*amp == 100 || *amp == 1) {
                            let rdn: Vec<&str> = dn.iter().rev().cloned().collect();
                            let rdec: Vec<u8> = decs.iter().rev().cloned().collect();
                            let dust = PuOp::Provide { u: B, pool: "o.g".into(), funds: funds0.iter().map(|(d, _)| (d.clone(), 1u128)).collect(), lock: None, lock_id: None, recv: None, liq_slip: Some(10_000), swap_slip: None };
                            let setup_r = vec![mkpool(f, &rdn, &rdec, Some(*amp)), prov(OWNER, funds0.clone()), dust];
                            let mut more = shapes.clone();
                            // strongly one-sided: a tenth of one reserve next to one unit of every other asset
                            for k in [0usize, nn - 1] {
                                more.push(funds0.iter().enumerate().map(|(i, (d, r))| (d.clone(), if i == k { r / 10 + 1 } else { 1 })).collect());
                            }
                            // amounts that would look balanced if the two assets' decimals were swapped: 10^(difference of decimals)
                            // units of the lower-decimals asset next to one unit of the higher-decimals one
                            if nn == 2 && decs[0] != decs[1] {
                                let (lo, hi) = if decs[0] < decs[1] { (0, 1) } else { (1, 0) };
                                let big_units = 10u128.pow((decs[hi] - decs[lo]) as u32);
                                for mult in [1u128, 5] {
                                    if big_units * mult <= funds0[lo].1 * 2 {
                                        let mut sh = vec![(funds0[0].0.clone(), 0u128), (funds0[1].0.clone(), 0u128)];
                                        sh[lo].1 = big_units * mult;
                                        sh[hi].1 = mult;
                                        more.push(sh);
                                    }
                                }
                            }
                            for sh in more {
                                v.push(PuCase { setup: setup_r.clone(), op: prov(A, sh) });
                            }
                        }
                        // a deposit after which every reserve holds the same number of raw units (mixed decimals: far from balanced
                        // in value), each amount within 1 % of the first in normalised terms where that is possible
                        if nn == 2 && decs[0] != decs[1] && skew == 1 {
                            let target = res.iter().max().unwrap() + res.iter().max().unwrap() / 200 + 1;
                            let sh: Vec<(String, u128)> = funds0.iter().map(|(d, r)| (d.clone(), target - r)).collect();
                            v.push(PuCase { setup: setup.clone(), op: prov(A, sh) });
                        }
                        let mut s2 = setup.clone();
                        s2.push(prov(A, funds0.iter().map(|(d, r)| (d.clone(), r / 2 + 1)).collect()));
                        let maxd = *decs.iter().max().unwrap() as u32;
                        let approx_supply = res.iter().zip(decs.iter()).map(|(r, d)| r * 10u128.pow(maxd - *d as u32) / 2).sum::<u128>();
                        for lp in [1u128, 10u128.pow(maxd - *decs.iter().min().unwrap() as u32), approx_supply / 3 + 1, approx_supply / 1000 + 7] {
                            v.push(PuCase { setup: s2.clone(), op: PuOp::Withdraw { u: A, pool: "o.g".into(), funds: vec![("factory/LP".into(), lp)] } });
                        }
                    }
                }
            }
        }
    }
    // mixed-decimals stableswap pools imbalanced by about the decimals gap, and the value-balanced deposit after which both
    // reserves hold exactly the same number of raw units
    for amp in [1u64, 100, 5000] {
        for (decs, a) in [(vec![6u8, 8u8], 500_000u128), (vec![8, 6], 500_000), (vec![6, 9], 7_000), (vec![6, 8], 1)] {
            let (lo, hi) = if decs[0] < decs[1] { (0usize, 1usize) } else { (1, 0) };
            let gap = 10u128.pow((decs[hi] - decs[lo]) as u32);
            let r = 2 * a * gap + 1_000 * gap;
            let mut res = vec![0u128; 2];
            res[lo] = r - a;
            res[hi] = r - a * gap;
            let mut dep = vec![0u128; 2];
            dep[lo] = a;
            dep[hi] = a * gap;
            let dn: Vec<&str> = DN[..2].to_vec();
            let f0: Vec<(String, u128)> = dn.iter().zip(&res).map(|(d, x)| (d.to_string(), *x)).collect();
            let fd: Vec<(String, u128)> = dn.iter().zip(&dep).map(|(d, x)| (d.to_string(), *x)).collect();
            for f in &feesets[..2] {
                v.push(PuCase { setup: vec![mkpool(f, &dn, &decs, Some(amp)), prov(OWNER, f0.clone())], op: prov(A, fd.clone()) });
            }
        }
    }
    v
}

fn eval(w: &mut crate::world::World, case: &PuCase, rec: &mut Rec) -> bool {
    // resolve the LP denom placeholder
    let mut case = case.clone();
    if let PuOp::Withdraw { funds, .. } = &mut case.op {
        if funds[0].0 == "factory/LP" {
            funds[0].0 = format!("factory/{}/o.g.LP", crate::world::World::pool_manager_addr());
        }
    }
    run_case(w, &case, &[oracle], rec)
}

pub fn jobs(tier: Tier) -> Vec<Job> {
    let full = PuChecker { name: "c02-pu-full".into(), seeds: vec!["S0", "S1", "S2", "S2r", "S3", "S4", "S6", "S7", "S8", "S8a"], alpha: Alpha::Full, oracles: vec![oracle] };
    let core = PuChecker { name: "c02-pu-core".into(), seeds: vec!["S2", "S4"], alpha: Alpha::Core, oracles: vec![oracle, oracle_split_coin] };
    vec![
        explore_job(full, tier.pick(2, 3), Caps::default()),
        explore_job(core, tier.pick(3, 4), Caps::default()),
        grid_job(
            "c02-grid",
            "prepared pools (constant product: small exhaustive reserve grid + magnitudes 10^4..10^30; stableswap: n in 2..4, amp, decimals mixes, magnitudes x skew x fees) x deposit shapes {proportional, single, all-but-one, dust, 3:1} and LP withdrawals {1, scaled minimum, fractions}; non-trivial = the pool could be prepared",
            cfg,
            grid_cases(tier),
            eval,
        ),
    ]
}
