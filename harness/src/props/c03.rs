//! C03 — swaps never reduce the pool invariant; no profitable swap sequence.
//! (a) transition oracle on every swap edge of PU (direct swaps; each hop of a route and the inner
//! swap of a single-asset deposit are re-executed one by one on a scratch world and judged the same way);
//! (b) swap-only state machine over a grid of pools: invariant monotone on every edge and no state in
//! which the trader's net flows are all >= 0 with one > 0.
use crate::engine::*;
use crate::exact::*;
use crate::props::c02::{d_exact_k, K};
use crate::pu::*;
use crate::report::*;
use crate::world::*;
use mantra_dex_std::pool_manager as pm;
use num_bigint::BigInt;
use serde::{Deserialize, Serialize};
use std::collections::BTreeMap;

fn res(p: &pm::PoolInfo, d: &str) -> u128 {
    p.assets.iter().find(|c| c.denom == d).map(|c| c.amount.u128()).unwrap_or(0)
}

/// Judge one executed swap on one pool from its reserves before/after.
/// `gross_out` = return + all fees as computed by the contract (the AMM output before fees).
pub fn check_swap_edge(pre: &pm::PoolInfo, post: &pm::PoolInfo, offer: &str, amt: u128, ask: &str, gross_out: Option<u128>, rec: &mut Rec) -> Option<u128> {
    rec.count("c03_swap_edges_judged");
    match pre.pool_type {
        pm::PoolType::ConstantProduct => {
            let k0 = big(res(pre, offer)) * big(res(pre, ask));
            let k1 = big(res(post, offer)) * big(res(post, ask));
            if k1 < k0 {
                rec.viol("C03_cp_k_decreased", format!("reserves {}/{} -> {}/{} (offer {amt} {offer})", res(pre, offer), res(pre, ask), res(post, offer), res(post, ask)));
            }
            None
        }
        pm::PoolType::StableSwap { amp } => {
            let d0 = d_exact_k(pre).unwrap();
            let d1 = d_exact_k(post).unwrap();
            if d1 >= d0 {
                return None;
            }
            // exact D fell. Classify against the C19 tolerance of the quote (known-finding envelope, DESIGN §2)
            let n = pre.assets.len();
            let maxd = *pre.asset_decimals.iter().max().unwrap() as u32;
            let dec = |d: &str| pre.asset_decimals[pre.asset_denoms.iter().position(|x| x == d).unwrap()] as u32;
            let ann = BigInt::from(amp) * BigInt::from(n as u64);
            let mut others = vec![];
            for c in pre.assets.iter() {
                if c.denom != ask {
                    let mut x = scale(c.amount.u128(), dec(&c.denom), maxd, K);
                    if c.denom == offer {
                        x += scale(amt, dec(&c.denom), maxd, K);
                    }
                    others.push(x);
                }
            }
            let y = exact_y_floor(&others, &d0, &ann, n as u32);
            let exact_out = scale(res(pre, ask), dec(ask), maxd, K) - &y;
            let key_state = format!("amp={amp} dec={:?} res={:?} offer={amt}{offer}->{ask}", pre.asset_decimals, pre.assets.iter().map(|c| c.amount.u128()).collect::<Vec<_>>());
            match gross_out {
                Some(g) => {
                    let gk = scale(g, dec(ask), maxd, K);
                    // 2 ask units + the exact value of 2 offer units (C19's tolerance)
                    let mut others_hi = others.clone();
                    {
                        let mut idx = 0;
                        for c in pre.assets.iter() {
                            if c.denom != ask {
                                if c.denom == offer {
                                    others_hi[idx] += scale(2, dec(offer), maxd, K);
                                }
                                idx += 1;
                            }
                        }
                    }
                    let y_hi = exact_y_floor(&others_hi, &d0, &ann, n as u32);
                    let val2 = &y - &y_hi;
                    let unit = BigInt::from(10u32).pow(K);
                    let tol = scale(2, dec(ask), maxd, K) + if val2 < BigInt::from(0) { -val2 } else { val2 } + unit;
                    let diff = &gk - &exact_out;
                    let ad = if diff < BigInt::from(0) { -diff.clone() } else { diff.clone() };
                    if ad <= tol {
                        rec.viol_kf("C03_ss_D_decreased_quote_within_tolerance", "envelope".into(), format!("{key_state}: gross out {g}, exact D fell {} -> {} (1e-{K} units) while the quote is within the C19 tolerance of the exact output", d0, d1));
                        Some(to_u128(&tol))
                    } else {
                        rec.viol_kf("C03_ss_D_decreased", format!("{key_state} gross={g}"), format!("{key_state}: gross out {g} differs from the exact output by {} (1e-{K} max-precision units, tolerance {tol}); exact D fell {d0} -> {d1}", diff));
                        None
                    }
                }
                None => {
                    rec.viol_kf("C03_ss_D_decreased", format!("{key_state} gross=?"), format!("{key_state}: exact D fell {d0} -> {d1}"));
                    None
                }
            }
        }
    }
}

fn gross_of(out: &Outcome) -> Option<u128> {
    let g = |k: &str| out.attr(k).and_then(|s| s.parse::<u128>().ok());
    Some(g("return_amount")? + g("swap_fee_amount")? + g("protocol_fee_amount")? + g("burn_fee_amount")? + g("extra_fees_amount")?)
}

pub fn oracle(c: &PuCtx, rec: &mut Rec) {
    if c.post_malformed() {
        return; // a pool lost part of its reserve list (C16 reports it); nothing here is defined on such a state
    }
    if !c.out.is_ok() {
        return;
    }
    match c.op {
        PuOp::Swap { pool, offer, ask, .. } if offer.len() == 1 => {
            rec.validated += 1;
            let (Some(pre), Some(post)) = (c.pre.pool(pool), c.post.pool(pool)) else { return };
            check_swap_edge(&pre.pool_info, &post.pool_info, &offer[0].0, offer[0].1, ask, gross_of(c.out), rec);
        }
        PuOp::Route { u, hops, amt, slip, recv, .. } => {
            rec.validated += 1;
            // a route that stays inside ONE pool and ends in the denom it started from is a swap sequence of its own: it must not
            // leave the trader ahead (beyond the dust of the trader-favouring roundings of KF-P6: two units per hop). Routes over
            // several pools may legitimately profit from pools priced differently and are not judged this way.
            if c.out.is_ok() && hops[0].0 == hops.last().unwrap().1 && hops.iter().all(|h| h.2 == hops[0].2) {
                let r = recv.unwrap_or(*u);
                let got = c.delta(r, &hops[0].0) + if r == *u { *amt as i128 } else { 0 };
                rec.count("c03_round_trip_routes");
                if got > *amt as i128 + 2 * hops.len() as i128 {
                    rec.viol("C03_profitable_route", format!("{:?}: {amt} in, {got} of the same denom out", c.op));
                }
            }
            // the route's own effect on every stableswap pool it touched: the exact invariant must not collapse (a fall beyond
            // 0.001 % is far outside the rounding envelope of KF-P6, which the hop-by-hop re-execution below judges exactly)
            if c.out.is_ok() {
                for (_, _, pid) in hops.iter() {
                    if let (Some(p0), Some(p1)) = (c.pre.pool(pid), c.post.pool(pid)) {
                        if let (Some(d0), Some(d1)) = (d_exact_k(&p0.pool_info), d_exact_k(&p1.pool_info)) {
                            if &d1 * BigInt::from(100_000) < &d0 * BigInt::from(99_999) {
                                rec.viol("C03_route_reduced_pool_value", format!("stableswap pool {pid}: exact D {d0} -> {d1} through {:?}", c.op));
                            }
                        }
                    }
                }
            }
            // the route's own effect on every constant-product pool it touched (a pool visited twice must still not lose value)
            for (_, _, pid) in hops.iter() {
                if let (Some(p0), Some(p1)) = (c.pre.pool(pid), c.post.pool(pid)) {
                    if let pm::PoolType::ConstantProduct = p0.pool_info.pool_type {
                        let k = |p: &pm::PoolInfoResponse| big(p.pool_info.assets[0].amount.u128()) * big(p.pool_info.assets[1].amount.u128());
                        if k(p1) < k(p0) {
                            rec.viol("C03_route_reduced_pool_value", format!("pool {pid}: reserves {:?} -> {:?} through {:?}", p0.pool_info.assets, p1.pool_info.assets, c.op));
                        }
                    }
                }
            }
            let cfg = cfg();
            with_scratch(&cfg, c.s0, |w2| {
                let mut a = *amt;
                for (hin, hout, pid) in hops.iter() {
                    let Some(p0) = observe_pool(w2, pid) else { return };
                    let b0 = w2.balance(&w2.users[*u].clone(), hout);
                    let o = apply(w2, &PuOp::Swap { u: *u, pool: pid.clone(), offer: vec![(hin.clone(), a)], ask: hout.clone(), slip: *slip, belief: None, recv: None });
                    if !o.is_ok() {
                        rec.count("c03_route_hop_not_reproducible");
                        return;
                    }
                    let p1 = observe_pool(w2, pid).unwrap();
                    check_swap_edge(&p0.pool_info, &p1.pool_info, hin, a, hout, gross_of(&o), rec);
                    a = w2.balance(&w2.users[*u].clone(), hout) - b0;
                }
            });
        }
        PuOp::Provide { u, pool, funds, swap_slip, .. } if funds.len() == 1 => {
            rec.validated += 1;
            let Some(pre) = c.pre.pool(pool) else { return };
            let Some(other) = pre.pool_info.assets.iter().find(|a| a.denom != funds[0].0) else { return };
            let cfg = cfg();
            with_scratch(&cfg, c.s0, |w2| {
                let o = apply(w2, &PuOp::Swap { u: *u, pool: pool.clone(), offer: vec![(funds[0].0.clone(), funds[0].1 / 2)], ask: other.denom.clone(), slip: *swap_slip, belief: None, recv: None });
                if !o.is_ok() {
                    rec.count("c03_inner_swap_not_reproducible");
                    return;
                }
                let p1 = observe_pool(w2, pool).unwrap();
                check_swap_edge(&pre.pool_info, &p1.pool_info, &funds[0].0, funds[0].1 / 2, &other.denom, gross_of(&o), rec);
            });
        }
        _ => {}
    }
}

// ---- (b) swap-only state machine

#[derive(Clone, Debug, Serialize, Deserialize, PartialEq)]
pub enum ScOp {
    Setup {
        decs: Vec<u8>,
        res: Vec<u128>,
        amp: Option<u64>,
        fees: FeeSpec,
        /// create the pool with its denoms in reverse (non-alphabetical) order and follow the first deposit with a dust
        /// deposit carrying the deposit tolerance 1
        #[serde(default)]
        unsorted_dust: bool,
    },
    Swap { i: usize, j: usize, amt: u128 },
}
#[derive(Clone, Default, Debug, PartialEq, Eq, Hash)]
pub struct ScGhost {
    /// trader's net flow per asset index since the seed (received - paid)
    pub net: BTreeMap<usize, i128>,
    /// number of edges on this path on which exact D fell while the quote was within its tolerance (known-finding envelope)
    pub envelope_edges: u32,
    /// some edge on this path reduced the invariant in a way NOT covered by the envelope
    pub bad_edge: bool,
}
#[derive(Clone)]
pub struct SwapChain {
    pub name: String,
    pub pools: Vec<(String, ScOp)>,
}
const DN: [&str; 4] = ["uom", "uusd", "uusdc", "uweth"];

impl Checker for SwapChain {
    type Op = ScOp;
    type Ghost = ScGhost;
    type Pre = Option<pm::PoolInfoResponse>;
    fn name(&self) -> String {
        self.name.clone()
    }
    fn cfg(&self) -> WorldCfg {
        cfg()
    }
    fn seeds(&self) -> Vec<(String, Vec<ScOp>)> {
        self.pools.iter().map(|(n, s)| (n.clone(), vec![s.clone()])).collect()
    }
    fn pre(&self, w: &mut World, _g: &ScGhost) -> Self::Pre {
        observe_pool(w, "o.g")
    }
    fn enabled(&self, _w: &mut World, g: &ScGhost, pre: &Self::Pre) -> Vec<ScOp> {
        let Some(p) = pre else { return vec![] };
        let n = p.pool_info.assets.len();
        let pairs: Vec<(usize, usize)> = if n == 2 { vec![(0, 1), (1, 0)] } else { vec![(0, 1), (1, 2 % n), (2 % n, 0), (1, 0), (n - 1, 0)] };
        let mut ops = vec![];
        let mut seen = std::collections::BTreeSet::new();
        for (i, j) in pairs {
            if i == j || !seen.insert((i, j)) {
                continue;
            }
            let r = p.pool_info.assets[i].amount.u128();
            let mut amts = vec![1u128, r / 100 + 1];
            if let Some(h) = g.net.get(&i) {
                if *h > 0 {
                    amts.push(*h as u128); // swap back everything gained in this asset
                }
            }
            for a in amts {
                ops.push(ScOp::Swap { i, j, amt: a });
            }
        }
        ops
    }
    fn apply(&self, w: &mut World, op: &ScOp) -> bool {
        self.exec(w, op).is_ok()
    }
    fn step(&self, w: &mut World, g: &ScGhost, pre: &Self::Pre, op: &ScOp, rec: &mut Rec) -> Option<ScGhost> {
        match op {
            ScOp::Setup { .. } => {
                if self.exec(w, op).is_ok() {
                    Some(g.clone())
                } else {
                    None
                }
            }
            ScOp::Swap { i, j, amt } => {
                let p0 = pre.as_ref()?;
                let (di, dj) = (p0.pool_info.assets[*i].denom.clone(), p0.pool_info.assets[*j].denom.clone());
                let trader = w.users[A].clone();
                let b0 = w.balance(&trader, &dj);
                let out = self.exec(w, op);
                if !out.is_ok() {
                    return None;
                }
                rec.validated += 1;
                let p1 = observe_pool(w, "o.g").unwrap();
                let viols_before = rec.viols.len();
                let env = check_swap_edge(&p0.pool_info, &p1.pool_info, &di, *amt, &dj, gross_of(&out), rec);
                let reduced_outside_envelope = rec.viols.len() > viols_before && env.is_none();
                let got = w.balance(&trader, &dj) - b0;
                if got > p0.pool_info.assets[*j].amount.u128() {
                    rec.viol("C03_output_exceeds_reserve", format!("got {got} of {dj}, reserve {}", p0.pool_info.assets[*j].amount));
                }
                let mut g2 = g.clone();
                if env.is_some() {
                    g2.envelope_edges += 1;
                }
                g2.bad_edge |= reduced_outside_envelope;
                *g2.net.entry(*i).or_default() -= *amt as i128;
                *g2.net.entry(*j).or_default() += got as i128;
                g2.net.retain(|_, v| *v != 0);
                if !g2.net.is_empty() && g2.net.values().all(|v| *v >= 0) {
                    // strictly ahead in some asset and behind in none: a profitable swap sequence.
                    // Attributed to the trader-favouring rounding (known finding) only if the path contains edges on which
                    // exact D fell with the quote within its tolerance, and no other invariant-reducing edge (DESIGN §3/C03).
                    let detail = format!("trader net flows {:?} (asset index -> units) are all non-negative after this swap; pool {:?} type {:?}; {} rounding edges on the path", g2.net, p0.pool_info.assets, p0.pool_info.pool_type, g2.envelope_edges);
                    if g2.envelope_edges > 0 && !g2.bad_edge {
                        rec.viol_kf("C03_profitable_cycle_through_rounding_edges", "envelope".into(), detail);
                    } else {
                        rec.viol("C03_profitable_cycle", detail);
                    }
                }
                Some(g2)
            }
        }
    }
}
impl SwapChain {
    fn exec(&self, w: &mut World, op: &ScOp) -> Outcome {
        match op {
            ScOp::Setup { decs, res, amp, fees, unsorted_dust } => {
                let dn: Vec<String> = DN[..decs.len()].iter().map(|s| s.to_string()).collect();
                let (mut cdn, mut cdec) = (dn.clone(), decs.clone());
                if *unsorted_dust {
                    cdn.reverse();
                    cdec.reverse();
                }
                let o = apply(w, &PuOp::CreatePool { u: OWNER, denoms: cdn, decimals: cdec, fees: fees.clone(), amp: *amp, id: Some("g".into()), funds: vec![("uom".into(), 8888), ("uusd".into(), 1000)] });
                if !o.is_ok() {
                    return o;
                }
                let o = apply(w, &PuOp::Provide { u: OWNER, pool: "o.g".into(), funds: dn.iter().cloned().zip(res.iter().cloned()).collect(), lock: None, lock_id: None, recv: None, liq_slip: None, swap_slip: None });
                if !o.is_ok() || !*unsorted_dust {
                    return o;
                }
                // the dust deposit is accepted only where it leaves isqrt(D) unchanged; where it is refused the seed is the
                // reverse-created pool without it
                let _ = apply(w, &PuOp::Provide { u: B, pool: "o.g".into(), funds: dn.into_iter().map(|d| (d, 1u128)).collect(), lock: None, lock_id: None, recv: None, liq_slip: Some(10_000), swap_slip: None });
                o
            }
            ScOp::Swap { i, j, amt } => {
                let Some(p) = observe_pool(w, "o.g") else { return Outcome::Rejected("no pool".into()) };
                apply(w, &PuOp::Swap { u: A, pool: "o.g".into(), offer: vec![(p.pool_info.assets[*i].denom.clone(), *amt)], ask: p.pool_info.assets[*j].denom.clone(), slip: Some(5000), belief: None, recv: None })
            }
        }
    }
}

pub fn chain_pools(tier: Tier) -> Vec<(String, ScOp)> {
    let mut v = vec![];
    let feesets = [zero_fees(), FeeSpec { p: 0, s: 30, b: 0, x: vec![] }];
    for (fi, f) in feesets.iter().enumerate() {
        // constant product
        for (x, y) in tier.pick(vec![(1001u128, 1003u128), (5_000, 1_200_000), (10u128.pow(12), 3 * 10u128.pow(18))], vec![(1001, 1003), (1100, 900_000), (5_000, 1_200_000), (10u128.pow(9), 10u128.pow(9) + 1), (10u128.pow(12), 3 * 10u128.pow(18)), (10u128.pow(24), 10u128.pow(25))]) {
            v.push((format!("cp-{x}-{y}-f{fi}"), ScOp::Setup { decs: vec![6, 6], res: vec![x, y], amp: None, fees: f.clone(), unsorted_dust: false }));
        }
        let amps: Vec<u64> = tier.pick(vec![1, 100], vec![1, 10, 100, 5000, 1_000_000]);
        let decsets: Vec<Vec<u8>> = tier.pick(vec![vec![6, 6], vec![6, 18], vec![8, 6], vec![6, 12], vec![6, 6, 6, 6]], vec![vec![6, 6], vec![6, 18], vec![18, 6], vec![8, 6], vec![6, 12], vec![6, 9, 12], vec![6, 12, 18], vec![6, 6, 6, 6]]);
        let mags: Vec<(u128, i32)> = tier.pick(vec![(2, -3), (100, 0)], vec![(2, -3), (3, 0), (100, 0), (1, 6), (1, 12)]);
        for amp in &amps {
            for decs in &decsets {
                for (m, e) in &mags {
                    for skew in tier.pick(vec![1u128, 1000], vec![1u128, 3, 1000]) {
                        let res: Vec<u128> = decs.iter().enumerate().map(|(i, d)| m * 10u128.pow((*d as i32 + e) as u32) * if i == 0 { skew } else { 1 }).collect();
                        v.push((format!("ss-a{amp}-{decs:?}-{m}e{e}-s{skew}-f{fi}"), ScOp::Setup { decs: decs.clone(), res: res.clone(), amp: Some(*amp), fees: f.clone(), unsorted_dust: false }));
                        if skew == 1 && *m == 100 {
                            v.push((format!("ss-a{amp}-{decs:?}-{m}e{e}-s{skew}-f{fi}-unsorted+dust"), ScOp::Setup { decs: decs.clone(), res, amp: Some(*amp), fees: f.clone(), unsorted_dust: true }));
                        }
                    }
                }
            }
        }
    }
    v
}

pub fn jobs(tier: Tier) -> Vec<Job> {
    let full = PuChecker { name: "c03-pu-full".into(), seeds: vec!["S1", "S2", "S3", "S3r", "S4", "S6", "S8", "S8a"], alpha: Alpha::Full, oracles: vec![oracle] };
    let core = PuChecker { name: "c03-pu-swapfocus".into(), seeds: vec!["S3", "S4"], alpha: Alpha::SwapFocus, oracles: vec![oracle] };
    let chain = SwapChain { name: "c03-swap-chains".into(), pools: chain_pools(tier) };
    vec![explore_job(full, tier.pick(2, 3), Caps::default()), explore_job(core, tier.pick(3, 4), Caps::default()), explore_job(chain, tier.pick(3, 4), Caps::default())]
}
