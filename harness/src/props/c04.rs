//! C04 — conservation and fee routing per swap (direct swaps: exact accounting from bank deltas and
//! the executed message's own attributes; routes: twin run against the same hops as single swaps).
use crate::engine::*;
use crate::exact::*;
use crate::pu::*;
use crate::report::*;
use crate::world::*;
use num_bigint::BigInt;

fn attr_u128(c: &PuCtx, k: &str) -> Option<u128> {
    c.out.attr(k).and_then(|s| s.parse().ok())
}

pub fn oracle(c: &PuCtx, rec: &mut Rec) {
    if c.post_malformed() {
        return; // a pool lost part of its reserve list (C16 reports it); nothing here is defined on such a state
    }
    if !c.out.is_ok() {
        return;
    }
    match c.op {
        PuOp::Swap { u, pool, offer, ask, recv, .. } if offer.len() == 1 => {
            rec.validated += 1;
            rec.count("c04_swap_edges");
            let (od, amt) = (&offer[0].0, offer[0].1);
            let r = recv.unwrap_or(*u);
            let pre_p = c.pre.pool(pool).unwrap();
            let fees = &pre_p.pool_info.pool_fees;
            let ret = attr_u128(c, "return_amount").unwrap_or(u128::MAX);
            let sf = attr_u128(c, "swap_fee_amount").unwrap_or(u128::MAX);
            let pf = attr_u128(c, "protocol_fee_amount").unwrap_or(u128::MAX);
            let bf = attr_u128(c, "burn_fee_amount").unwrap_or(u128::MAX);
            let xf = attr_u128(c, "extra_fees_amount").unwrap_or(u128::MAX);
            let gross = BigInt::from(ret) + sf + pf + bf + xf;
            let fl = |share: cosmwasm_std::Decimal| -> BigInt { &gross * BigInt::from(share.atomics().u128()) / BigInt::from(10u128.pow(18)) };
            if fl(fees.protocol_fee.share) != big(pf) || fl(fees.swap_fee.share) != big(sf) || fl(fees.burn_fee.share) != big(bf) {
                rec.viol("C04_fee_formula", format!("gross {gross}: swap {sf} protocol {pf} burn {bf} vs shares {:?}", fees));
            }
            let xs: BigInt = fees.extra_fees.iter().map(|f| fl(f.share)).sum();
            if xs != big(xf) {
                rec.viol("C04_fee_formula", format!("gross {gross}: extra fees {xf} != sum of floors {xs}"));
            }
            // who gets what
            let got = c.delta(r, ask) + if r == *u && ask == od { amt as i128 } else { 0 };
            if got != ret as i128 {
                rec.viol("C04_receiver", format!("receiver got {got}, executed return_amount {ret}"));
            }
            if c.delta(FC, ask) != pf as i128 {
                rec.viol("C04_protocol_fee_dest", format!("fee collector delta {} != protocol fee {pf}", c.delta(FC, ask)));
            }
            if -c.dsupply(ask) != bf as i128 {
                rec.viol("C04_burn", format!("supply delta {} != -burn fee {bf}", c.dsupply(ask)));
            }
            // reserves
            let d_off = c.post.reserve(pool, od) as i128 - c.pre.reserve(pool, od) as i128;
            let d_ask = c.pre.reserve(pool, ask) as i128 - c.post.reserve(pool, ask) as i128;
            if d_off != amt as i128 {
                rec.viol("C04_offer_reserve", format!("offer reserve delta {d_off} != offer {amt}"));
            }
            if d_ask != (ret + pf + bf) as i128 {
                rec.viol("C04_ask_reserve", format!("ask reserve fell by {d_ask}, left the contract: {ret}+{pf}+{bf}"));
            }
            // nobody else moves
            let mut denoms: std::collections::BTreeSet<String> = std::collections::BTreeSet::new();
            for b in c.pre.bal.iter().chain(c.post.bal.iter()) {
                denoms.extend(b.keys().cloned());
            }
            for acc in 0..c.pre.bal.len() {
                for d in &denoms {
                    let mut exp: i128 = 0;
                    if acc == *u && d == od {
                        exp -= amt as i128;
                    }
                    if acc == r && d == ask {
                        exp += ret as i128;
                    }
                    if acc == FC && d == ask {
                        exp += pf as i128;
                    }
                    if acc == PM && d == od {
                        exp += amt as i128;
                    }
                    if acc == PM && d == ask {
                        exp -= (ret + pf + bf) as i128;
                    }
                    if c.delta(acc, d) != exp {
                        rec.viol("C04_third_party", format!("account #{acc} denom {d}: delta {} expected {exp}", c.delta(acc, d)));
                    }
                }
            }
            for (d, s0) in &c.pre.supply {
                let exp = if d == ask { -(bf as i128) } else { 0 };
                if c.post.sup(d) as i128 - *s0 as i128 != exp {
                    rec.viol("C04_supply", format!("supply of {d} changed by {} expected {exp}", c.post.sup(d) as i128 - *s0 as i128));
                }
            }
            for p in &c.pre.pools {
                if &p.pool_info.pool_identifier != pool && c.post.pool(&p.pool_info.pool_identifier) != Some(p) {
                    rec.viol("C04_other_pool_touched", p.pool_info.pool_identifier.clone());
                }
            }
        }
        PuOp::Route { u, hops, amt, recv, slip, .. } => {
            rec.count("c04_route_edges");
            let r = recv.unwrap_or(*u);
            let first = &hops[0].0;
            let last = &hops.last().unwrap().1;
            // hop chaining from the executed message's own attributes
            let swaps = c.out.attrs("swap");
            if swaps.len() != hops.len() {
                rec.viol("C04_route_hops", format!("{} hop attributes for {} hops", swaps.len(), hops.len()));
            }
            let parse = |s: &str, key: &str| -> Option<u128> {
                let i = s.find(key)? + key.len();
                let t: String = s[i..].chars().take_while(|ch| ch.is_ascii_digit()).collect();
                t.parse().ok()
            };
            let mut prev_out: Option<u128> = None;
            for (i, s) in swaps.iter().enumerate() {
                let inn = parse(s, "in=").unwrap_or(u128::MAX);
                let out = parse(s, "out=").unwrap_or(u128::MAX);
                let want = if i == 0 { *amt } else { prev_out.unwrap() };
                if inn != want {
                    rec.viol("C04_route_chain", format!("hop {i} consumed {inn}, previous hop produced {want}"));
                }
                prev_out = Some(out);
            }
            let got = c.delta(r, last) + if r == *u && last == first { *amt as i128 } else { 0 };
            if Some(got) != prev_out.map(|x| x as i128) {
                rec.viol("C04_route_final", format!("receiver got {got}, last hop produced {:?}", prev_out));
            }
            // intermediate denoms never reach the sender or receiver
            for h in &hops[..hops.len() - 1] {
                if &h.1 != last && &h.1 != first {
                    for acc in [*u, r] {
                        if c.delta(acc, &h.1) != 0 {
                            rec.viol("C04_route_intermediate", format!("account #{acc} holds intermediate {} delta {}", h.1, c.delta(acc, &h.1)));
                        }
                    }
                }
            }
            if c.delta(*u, first) + (*amt as i128) != if r == *u && last == first { got } else { 0 } {
                rec.viol("C04_route_sender", format!("sender delta of {first} is {}", c.delta(*u, first)));
            }
            // twin: the same hops as individual swaps must leave identical pools, balances, supplies
            let cfg = cfg();
            let twin = with_scratch(&cfg, c.s0, |w2| {
                let mut a = *amt;
                for (i, (hin, hout, pid)) in hops.iter().enumerate() {
                    let lasthop = i + 1 == hops.len();
                    let b0 = w2.balance(&w2.users[if lasthop { r } else { *u }].clone(), hout);
                    let o = apply(w2, &PuOp::Swap { u: *u, pool: pid.clone(), offer: vec![(hin.clone(), a)], ask: hout.clone(), slip: *slip, belief: None, recv: if lasthop { *recv } else { None } });
                    if !o.is_ok() {
                        return None;
                    }
                    let b1 = w2.balance(&w2.users[if lasthop { r } else { *u }].clone(), hout);
                    a = b1 + if lasthop && r == *u && hout == hin { a } else { 0 } - b0;
                }
                Some(observe(w2))
            });
            match twin {
                None => rec.count("c04_route_twin_not_comparable"),
                Some(t) => {
                    rec.validated += 1;
                    if t.pools != c.post.pools {
                        rec.viol("C04_route_vs_swaps_pools", format!("route leaves pools {:?} but the same swaps one by one leave {:?}", c.post.pools.iter().map(|p| &p.pool_info.assets).collect::<Vec<_>>(), t.pools.iter().map(|p| &p.pool_info.assets).collect::<Vec<_>>()));
                    }
                    if t.bal != c.post.bal {
                        rec.viol("C04_route_vs_swaps_balances", format!("route balances {:?} vs single swaps {:?}", c.post.bal, t.bal));
                    }
                    if t.supply != c.post.supply {
                        rec.viol("C04_route_vs_swaps_supply", format!("{:?} vs {:?}", c.post.supply, t.supply));
                    }
                }
            }
        }
        _ => {}
    }
}

pub fn jobs(tier: Tier) -> Vec<Job> {
    let full = PuChecker { name: "c04-pu-full".into(), seeds: vec!["S1", "S2", "S2r", "S3", "S4", "S5", "S6", "S7", "S8", "S8a", "S9"], alpha: Alpha::Full, oracles: vec![oracle] };
    let core = PuChecker { name: "c04-pu-swapfocus".into(), seeds: vec!["S2", "S5", "S9"], alpha: Alpha::SwapFocus, oracles: vec![oracle, oracle_default_receiver] };
    vec![explore_job(full, tier.pick(2, 3), Caps::default()), explore_job(core, tier.pick(3, 4), Caps::default())]
}
