//! C09 — emergency exit penalty (exhaustive grid through real emergency withdrawals) and
//! C10(b) — weight curve grid through real position creations.
use crate::engine::*;
use crate::exact::*;
use crate::fu::*;
use crate::report::*;
use crate::world::*;
use cosmwasm_std::{coin, Decimal};
use mantra_dex_std::farm_manager as fm;
use mantra_dex_std::pool_manager as pm;
use num_bigint::BigInt;
use serde::{Deserialize, Serialize};
use std::collections::{BTreeMap, BTreeSet};

#[derive(Clone, Debug, Serialize, Deserialize)]
pub struct P09 {
    pub base_pct: u64,
    pub dur: u64,
    pub amount: u128,
    /// 0 none, 1 one active, 2 two active same owner, 3 two owners, 4 three owners, 5 future-only, 6 expired-only, 7 active+expired,
    /// 8 eleven active (two owners), 9 one farm claimed down to zero but still inside its epoch range, 10 one active farm whose
    /// owner has been made the fee collector, 11 / 12 two farms with one end epoch, one of them exhausted (sorting first / last)
    pub farms: u8,
}

fn cfg09(base: u64) -> WorldCfg {
    WorldCfg { n_users: N_USERS, max_concurrent_farms: 12, penalty: Decimal::percent(base), ..Default::default() }
}

fn build_base(w: &mut World, farms: u8) {
    assert!(apply(w, &FuOp::Base).is_ok(), "MACHINERY: base");
    // A needs a large LP balance
    let a = w.users[A].clone();
    let pma = w.pool_manager.clone();
    let o = w.exec(&a, &pma, &pm::ExecuteMsg::ProvideLiquidity { liquidity_max_slippage: None, swap_max_slippage: None, receiver: None, pool_identifier: "o.a".into(), unlocking_duration: None, lock_position_identifier: None }, &[coin(10u128.pow(31), "uom"), coin(10u128.pow(31), "uusd")]);
    assert!(o.is_ok(), "MACHINERY: big LP {}", o.err_text());
    // another user's LP sits in the farm manager, so an over-payment would be taken from it instead of failing
    let o = apply(w, &FuOp::CreatePos { u: B, lp: 0, amount: 5_000_000, dur: 100 * DAY, id: Some("other".into()), recv: None });
    assert!(o.is_ok(), "MACHINERY: B position {}", o.err_text());
    let fee = ("uom".to_string(), 1000u128);
    let mk = |w: &mut World, u: usize, s: u64, e: u64, id: &str| {
        let o = apply(w, &farm_op(&fee, u, 0, Some(s), Some(e), ("uusdc", 1000 * (e - s) as u128), Some(id)));
        assert!(o.is_ok(), "MACHINERY: farm {id}: {}", o.err_text());
    };
    match farms {
        1 | 10 => mk(w, C, 1, 60, "a1"),
        2 => {
            mk(w, C, 1, 60, "a1");
            mk(w, C, 2, 70, "a2");
        }
        3 => {
            mk(w, C, 1, 60, "a1");
            mk(w, OWNER, 1, 60, "a2");
        }
        4 => {
            mk(w, C, 1, 60, "a1");
            mk(w, OWNER, 1, 60, "a2");
            mk(w, B, 1, 60, "a3");
        }
        8 => {
            // eleven active farms on the LP (more than one page of the farm listing); the last-sorting one has another owner
            for i in 1..=10u32 {
                mk(w, C, 1, 60, &format!("a{i:02}"));
            }
            mk(w, OWNER, 1, 60, "zz");
        }
        6 => mk(w, C, 1, 2, "e1"),
        7 => {
            mk(w, C, 1, 2, "e1");
            mk(w, OWNER, 1, 60, "a1");
        }
        _ => {}
    }
    w.advance(40 * DAY);
    if farms == 5 {
        mk(w, C, 45, 47, "f1");
    }
    if farms == 10 {
        // the owner re-points the farm manager's fee collector to the account that owns the (only) active farm
        let o = apply(w, &FuOp::SetCfg { u: OWNER, field: "fee_collector".into(), val: C as u64 });
        assert!(o.is_ok(), "MACHINERY: re-point fee collector {}", o.err_text());
    }
    if farms == 11 || farms == 12 {
        // two farms of different owners with the same end epoch; the only staker claims at that epoch: one of them is claimed
        // down to zero (expired by exhaustion), the other keeps one unit of rounding dust and stays active. 11: the exhausted one
        // sorts first, 12: last
        let (ex, live) = if farms == 11 { ("x1", "x2") } else { ("x2", "x1") };
        let o = apply(w, &farm_op(&fee, C, 0, Some(41), Some(43), ("uusdc", 2000), Some(ex)));
        assert!(o.is_ok(), "MACHINERY: farm {ex}: {}", o.err_text());
        let o = apply(w, &farm_op(&fee, OWNER, 0, Some(41), Some(43), ("uusdc", 2003), Some(live)));
        assert!(o.is_ok(), "MACHINERY: farm {live}: {}", o.err_text());
        w.advance(3 * DAY);
        let o = apply(w, &FuOp::Claim { u: B, until: None });
        assert!(o.is_ok(), "MACHINERY: claim {}", o.err_text());
        let fs = observe_light(w).farms;
        let fe = fs.iter().find(|f| f.identifier.ends_with(ex)).expect("MACHINERY: farm");
        let fl = fs.iter().find(|f| f.identifier.ends_with(live)).expect("MACHINERY: farm");
        assert!(fe.claimed_amount == fe.farm_asset.amount && fl.claimed_amount < fl.farm_asset.amount, "MACHINERY: farm sets 11/12: {:?} {:?}", fe, fl);
    }
    if farms == 9 {
        // a farm emitting in epochs 41 and 42; at epoch 43 (still its end epoch) the only staker so far claims everything: the farm has nothing left (expired by exhaustion) inside its own epoch range
        mk(w, C, 41, 43, "x1");
        w.advance(3 * DAY);
        let o = apply(w, &FuOp::Claim { u: B, until: None });
        assert!(o.is_ok(), "MACHINERY: claim {}", o.err_text());
        let f = observe_light(w).farms.into_iter().find(|f| f.identifier.ends_with("x1")).expect("MACHINERY: farm x1");
        assert!(f.claimed_amount == f.farm_asset.amount, "MACHINERY: farm x1 not exhausted: {:?}", f);
    }
}

fn active_owners(w: &World, o: &FuObs, lp: &str) -> BTreeSet<usize> {
    let exp = o.cfg.as_ref().unwrap().farm_expiration_time;
    o.farms
        .iter()
        .filter(|f| f.lp_denom == lp)
        .filter(|f| f.start_epoch <= o.cur)
        .filter(|f| {
            let ending_at = GENESIS + (f.preliminary_end_epoch + 1) * DAY;
            !(f.farm_asset.amount.u128().saturating_sub(f.claimed_amount.u128()) == 0 || ending_at + exp < o.now)
        })
        .filter_map(|f| acc_index(w, &f.owner))
        .collect()
}

fn eval09(w: &mut World, p: &P09, rec: &mut Rec) -> bool {
    let cfg = cfg09(p.base_pct);
    restore_base(w, &format!("c09-{}-{}", p.base_pct, p.farms), &cfg, |w| build_base(w, p.farms));
    let lp = w.lp("o.a");
    let o = apply(w, &FuOp::CreatePos { u: A, lp: 0, amount: p.amount, dur: p.dur, id: Some("x".into()), recv: None });
    if !o.is_ok() {
        rec.outcome("CreatePos", o.class());
        return false;
    }
    let cur = cur_epoch(w);
    let weight = match w.query::<fm::LpWeightResponse, _>(&w.farm_manager, &fm::QueryMsg::LpWeight { address: w.users[A].to_string(), denom: lp.clone(), epoch_id: cur + 1 }) {
        Ok(r) => r.lp_weight.u128(),
        Err(_) => {
            rec.viol("C09_no_weight", format!("{:?}", p));
            return false;
        }
    };
    let snap_open = w.snapshot();
    let o = apply(w, &FuOp::ClosePos { u: A, id: "u-x".into(), partial: None });
    if !o.is_ok() {
        rec.viol("C09_setup_close_refused", format!("{:?}: {}", p, o.err_text()));
        return false;
    }
    let snap_closed = w.snapshot();
    let dur = p.dur;
    let mut cases: Vec<Option<u64>> = vec![None];
    for e in [0u64, 1, dur / 4, dur / 2, dur - 1, dur, dur + 1] {
        cases.push(Some(e));
    }
    let mut last_pen: Option<u128> = None;
    for el in cases {
        match el {
            None => w.restore(&snap_open),
            Some(e) => {
                w.restore(&snap_closed);
                w.advance(e);
            }
        }
        let pre = observe_light(w);
        let s0 = w.snapshot();
        let out = apply(w, &FuOp::WithdrawPos { u: A, id: "u-x".into(), emergency: Some(true) });
        rec.count("c09_emergency_withdrawals");
        rec.outcome("EmergencyWithdraw", out.class());
        if !out.is_ok() {
            if w.app.storage().data != s0.storage.data {
                rec.viol("C09_refused_but_changed_state", format!("{:?} el={el:?}", p));
            }
            // a refused emergency withdrawal is not constrained by this property (DESIGN §3/C09), except that
            // small positions must be exitable: the refusal class is recorded
            if p.amount < 10u128.pow(20) {
                rec.viol("C09_emergency_exit_refused", format!("{:?} el={el:?}: {}", p, out.err_text()));
            }
            continue;
        }
        let post = observe_light(w);
        let d = |acc: usize| post.b(acc, &lp) as i128 - pre.b(acc, &lp) as i128;
        let got = d(A);
        let out_fm = -d(FM);
        let amount = p.amount as i128;
        let pen = amount - got;
        let mut why: Vec<String> = vec![];
        if out_fm > amount {
            why.push(format!("farm manager released {out_fm} for a position of {amount}"));
        }
        if post.positions.iter().any(|x| x.identifier == "u-x") {
            why.push("position still recorded".into());
        }
        // who received what (the fee collector is whoever the farm manager's configuration names)
        let fc = pre.cfg.as_ref().and_then(|c| acc_index(w, &c.fee_collector_addr)).unwrap_or(FC);
        let actives = active_owners(w, &pre, &lp);
        let mut paid_out: i128 = 0;
        for acc in 0..N_ACC {
            if acc == A || acc == FM {
                continue;
            }
            let x = d(acc);
            if x < 0 {
                why.push(format!("account #{acc} lost {x}"));
            }
            if x > 0 {
                paid_out += x;
                if acc != fc && !actives.contains(&acc) {
                    why.push(format!("account #{acc} received {x} of the penalty but owns no active farm on this LP (active owners {:?})", actives));
                }
            }
        }
        // "split between the fee collector and the owners of currently active farms": when any farm owner is paid, every
        // owner of an active farm is
        let paid_owners: Vec<usize> = actives.iter().cloned().filter(|a| d(*a) > 0 || *a == A).collect();
        if actives.iter().any(|a| *a != A && d(*a) > 0) && paid_owners.len() != actives.len() {
            why.push(format!("owners of active farms {:?}, but only {:?} received a share of the penalty", actives, paid_owners));
        }
        if got + paid_out > amount || got < 0 {
            why.push(format!("owner {got} + penalty payouts {paid_out} > recorded amount {amount}"));
        }
        // the statement bounds the payouts by the penalty; what the equal division among n farm owners cannot
        // distribute (< n units) may stay behind, anything more is unaccounted
        if paid_out > pen || pen - paid_out >= (actives.len().max(1)) as i128 {
            why.push(format!("penalty {pen} but {paid_out} paid out ({} active farm owners)", actives.len()));
        }
        if out_fm != got + paid_out {
            why.push(format!("farm manager released {out_fm}, receipts sum to {}", got + paid_out));
        }
        if actives.is_empty() && d(fc) != pen {
            why.push(format!("no active farm: fee collector got {} of penalty {pen}", d(fc)));
        }
        // exact value: amount * min(0.9, base * remaining/duration * weight/amount)
        let rem = match el {
            None => dur,
            Some(e) => dur.saturating_sub(e),
        };
        let num = BigInt::from(p.base_pct) * BigInt::from(rem) * BigInt::from(weight);
        let den = BigInt::from(100u32) * BigInt::from(dur);
        let uncapped = &num / &den; // floor
        let cap: BigInt = BigInt::from(p.amount) * 9 / 10;
        let pstar = uncapped.min(cap.clone());
        let slack = BigInt::from(1) + BigInt::from(p.amount) / BigInt::from(10u128.pow(16));
        let penb = BigInt::from(pen);
        if penb > pstar {
            why.push(format!("penalty {pen} above base x remaining x multiplier = {pstar}"));
        }
        if penb < &pstar - &slack {
            why.push(format!("penalty {pen} below exact {pstar} by more than the rounding slack {slack}"));
        }
        if penb > cap {
            why.push(format!("penalty {pen} above 90% of the position"));
        }
        if let (Some(l), Some(_)) = (last_pen, el) {
            if pen as u128 > l {
                why.push(format!("penalty increased as time passed: {l} -> {pen}"));
            }
        }
        if let Some(e) = el {
            if e >= dur && pen != 0 {
                why.push("penalty charged after the position unlocked".into());
            }
            last_pen = Some(pen as u128);
        }
        if !why.is_empty() {
            rec.viol("C09_penalty", format!("{:?} weight={weight} elapsed={el:?}: {}", p, why.join("; ")));
        }
    }
    true
}

pub fn points09(tier: Tier) -> Vec<P09> {
    let mut v = vec![];
    let bases: Vec<u64> = tier.pick(vec![0, 10, 50, 100], vec![0, 1, 10, 50, 90, 100]);
    let durs: Vec<u64> = tier.pick(vec![DAY, DAY + 1, 100 * DAY, 31_556_926], vec![DAY, DAY + 1, 30 * DAY, 100 * DAY, 182 * DAY, 365 * DAY, 31_556_926]);
    let mut amounts: Vec<u128> = (1u128..=tier.pick(64, 130)).collect();
    for k in tier.pick(vec![3u32, 6, 12, 18, 24], (2..=24).collect::<Vec<_>>()) {
        amounts.extend([10u128.pow(k) - 1, 10u128.pow(k), 10u128.pow(k) + 1]);
    }
    for b in &bases {
        for d in &durs {
            for a in &amounts {
                for f in 0u8..13 {
                    v.push(P09 { base_pct: *b, dur: *d, amount: *a, farms: f });
                }
            }
        }
    }
    v
}

// ---------------------------------------------------------------------------------- C10 (b)
#[derive(Clone, Debug, Serialize, Deserialize)]
pub enum P10 {
    /// fixed duration, loop over the amount axis
    ByDuration { dur: u64 },
    /// fixed amount, loop over the duration axis
    ByAmount { amount: u128 },
}

pub fn amounts10(tier: Tier) -> Vec<u128> {
    let mut a: Vec<u128> = (1u128..=tier.pick(40, 200)).collect();
    for k in tier.pick(vec![3u32, 6, 9, 12, 18, 24, 30], (2..=30).collect::<Vec<_>>()) {
        a.extend([10u128.pow(k) - 1, 10u128.pow(k), 10u128.pow(k) + 1]);
    }
    a.sort();
    a.dedup();
    a
}
pub fn durations10(tier: Tier) -> Vec<u64> {
    let mut d: Vec<u64> = (1..=365u64).step_by(tier.pick(9, 1)).map(|x| x * DAY).collect();
    d.extend([DAY, DAY + 1, 15_778_463 - 1, 15_778_463, 15_778_463 + 1, 365 * DAY, 31_556_926 - 1, 31_556_926]);
    d.sort();
    d.dedup();
    d
}

fn weight_of(w: &mut World, amount: u128, dur: u64, rec: &mut Rec) -> Option<u128> {
    let cfg = cfg09(10);
    restore_base(w, "c10b", &cfg, |w| build_base(w, 0));
    let lp = w.lp("o.a");
    let o = apply(w, &FuOp::CreatePos { u: A, lp: 0, amount, dur, id: None, recv: None });
    rec.outcome("CreatePos", o.class());
    if !o.is_ok() {
        return None;
    }
    let cur = cur_epoch(w);
    rec.count("c10_weight_evaluations");
    w.query::<fm::LpWeightResponse, _>(&w.farm_manager, &fm::QueryMsg::LpWeight { address: w.users[A].to_string(), denom: lp, epoch_id: cur + 1 }).ok().map(|r| r.lp_weight.u128())
}

fn eval10(tier: Tier) -> impl Fn(&mut World, &P10, &mut Rec) -> bool + Sync + Send + Clone + 'static {
    move |w: &mut World, p: &P10, rec: &mut Rec| {
        let check_one = |amount: u128, dur: u64, wt: u128, rec: &mut Rec| {
            if wt < amount || BigInt::from(wt) > BigInt::from(amount) * 16 {
                rec.viol("C10_weight_out_of_range", format!("amount {amount} duration {dur}: weight {wt} not in [amount, 16 x amount]"));
            }
            if dur == DAY && wt != amount {
                rec.viol("C10_one_day_weight", format!("amount {amount} at one day: weight {wt}"));
            }
        };
        match p {
            P10::ByDuration { dur } => {
                let mut last: Option<(u128, u128)> = None;
                for a in amounts10(tier) {
                    // positions above the LP balance cannot be created; the axis ends there
                    let Some(wt) = weight_of(w, a, *dur, rec) else {
                        if a < 10u128.pow(30) {
                            rec.viol("C10_valid_position_refused", format!("amount {a} duration {dur}"));
                        }
                        continue;
                    };
                    check_one(a, *dur, wt, rec);
                    if let Some((la, lw)) = last {
                        if wt < lw {
                            rec.viol("C10_weight_decreases_in_amount", format!("duration {dur}: weight({la}) = {lw} > weight({a}) = {wt}"));
                        }
                    }
                    last = Some((a, wt));
                }
            }
            P10::ByAmount { amount } => {
                let mut last: Option<(u64, u128)> = None;
                for d in durations10(tier) {
                    let Some(wt) = weight_of(w, *amount, d, rec) else {
                        rec.viol("C10_valid_position_refused", format!("amount {amount} duration {d}"));
                        continue;
                    };
                    check_one(*amount, d, wt, rec);
                    if let Some((ld, lw)) = last {
                        if wt < lw {
                            rec.viol("C10_weight_decreases_in_duration", format!("amount {amount}: weight at {ld}s = {lw} > weight at {d}s = {wt}"));
                        }
                    }
                    last = Some((d, wt));
                }
                // outside the allowed range positions are refused
                for d in [DAY - 1, 31_556_926 + 1, 0] {
                    if weight_of(w, *amount, d, rec).is_some() {
                        rec.viol("C10_duration_out_of_range_accepted", format!("amount {amount} duration {d}"));
                    }
                }
            }
        }
        true
    }
}

pub fn jobs_c09(tier: Tier) -> Vec<Job> {
    vec![grid_job(
        "c09-penalty-grid",
        "real emergency withdrawals over {base penalty} x {unlocking duration} x {amount: 1..N, 10^k, 10^k±1} x {open, closed x elapsed in {0,1s,25%,50%,dur-1,dur,dur+1}} x {farm sets: none, active (1, 2 same owner, 2 owners, 3 owners), future-only, expired-only, active+expired}; a point is one position taken through all elapsed times (monotonicity is checked along that axis); non-trivial = the position could be created",
        || cfg09(10),
        points09(tier),
        eval09,
    )]
}

pub fn jobs_c10_grid(tier: Tier) -> Vec<Job> {
    let mut pts: Vec<P10> = durations10(tier).into_iter().map(|dur| P10::ByDuration { dur }).collect();
    pts.extend(amounts10(tier).into_iter().filter(|a| *a < 10u128.pow(30)).map(|amount| P10::ByAmount { amount }));
    vec![grid_job(
        "c10-weight-curve-grid",
        "position weight observed through Create + LpWeight on the grid {durations: days 1..365 (+-1 s at both ends, the half-year anchor +-1 s)} x {amounts 1..N, 10^k, 10^k±1}: range [amount, 16 x amount], 1 day => weight = amount, monotone along both axes (each grid point walks one full axis)",
        || cfg09(10),
        pts,
        eval10(tier),
    )]
}
