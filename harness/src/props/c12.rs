//! C12 — quotes equal execution. (a) transition oracle on every Swap / Route edge of PU;
//! (b) exhaustive reverse-quote grid on constant-product pools.
use crate::engine::*;
use crate::pu::*;
use crate::report::*;
use crate::world::*;
use cosmwasm_std::coin;
use mantra_dex_std::pool_manager as pm;
use serde::{Deserialize, Serialize};

fn attr_u128(c: &PuCtx, k: &str) -> Option<u128> {
    c.out.attr(k).and_then(|s| s.parse().ok())
}

pub fn oracle(c: &PuCtx, rec: &mut Rec) {
    if c.post_malformed() {
        return; // a pool lost part of its reserve list (C16 reports it); nothing here is defined on such a state
    }
    if c.out.is_ok() {
        reverse_clause(c, rec);
    }
    match c.op {
        PuOp::Swap { u, offer, ask, recv, .. } if offer.len() == 1 => {
            if !c.out.is_ok() {
                return;
            }
            rec.count("c12_swap_edges");
            match &c.quote.sim {
                Some(Ok(q)) => {
                    rec.validated += 1;
                    let r = recv.unwrap_or(*u);
                    let got = c.delta(r, ask);
                    let fc = c.delta(FC, ask);
                    let burned = -c.dsupply(ask);
                    if q.return_amount.u128() as i128 != got || q.protocol_fee_amount.u128() as i128 != fc || q.burn_fee_amount.u128() as i128 != burned {
                        rec.viol("C12_quote_ne_exec", format!("quote {:?}; executed: receiver {got} fee collector {fc} burned {burned}", q));
                    }
                    for (k, v) in [("return_amount", q.return_amount), ("swap_fee_amount", q.swap_fee_amount), ("protocol_fee_amount", q.protocol_fee_amount), ("burn_fee_amount", q.burn_fee_amount), ("extra_fees_amount", q.extra_fees_amount), ("slippage_amount", q.slippage_amount)] {
                        if attr_u128(c, k) != Some(v.u128()) {
                            rec.viol("C12_quote_ne_exec_attr", format!("{k}: quoted {v}, executed {:?}", attr_u128(c, k)));
                        }
                    }
                }
                Some(Err(e)) => rec.viol("C12_quote_failed_exec_ok", format!("Simulation failed ({e}) but the swap executed")),
                None => {}
            }
        }
        PuOp::Route { u, hops, amt, recv, .. } => {
            if !c.out.is_ok() {
                return;
            }
            rec.count("c12_route_edges");
            let mut seen = std::collections::BTreeSet::new();
            let simple = hops.iter().all(|h| seen.insert(h.2.clone()));
            if !simple {
                rec.count("c12_route_not_simple_skipped");
                return;
            }
            let r = recv.unwrap_or(*u);
            let last = &hops.last().unwrap().1;
            let first = &hops[0].0;
            let got = c.delta(r, last) + if r == *u && last == first { *amt as i128 } else { 0 };
            match &c.quote.route {
                Some(Ok(q)) => {
                    rec.validated += 1;
                    if q.return_amount.u128() as i128 != got {
                        rec.viol("C12_route_quote_ne_exec", format!("SimulateSwapOperations {} but execution delivered {got}", q.return_amount));
                    }
                }
                Some(Err(e)) => rec.viol("C12_route_quote_failed_exec_ok", format!("SimulateSwapOperations failed ({e}) but the route executed")),
                None => {}
            }
        }
        _ => {}
    }
}

/// "In any state": on every constant-product pool the accepted operation changed, both directions, three ask sizes:
/// ReverseSimulation q, then Simulation(q + 1) must return at least the requested amount.
fn reverse_clause(c: &PuCtx, rec: &mut Rec) {
    for p in &c.post.pools {
        let pi = &p.pool_info;
        if !matches!(pi.pool_type, pm::PoolType::ConstantProduct) || malformed(pi) || pi.assets.iter().any(|a| a.amount.is_zero()) {
            continue;
        }
        if c.pre.pool(&pi.pool_identifier) == Some(p) {
            continue;
        }
        for (oi, ai) in [(0usize, 1usize), (1, 0)] {
            let (od, ad) = (pi.assets[oi].denom.clone(), pi.assets[ai].denom.clone());
            let ra = pi.assets[ai].amount.u128();
            for ask in [1u128, ra / 7 + 1, ra / 2] {
                if ask == 0 || ask >= ra {
                    continue;
                }
                let q: Result<pm::ReverseSimulationResponse, String> = c.w.query(&c.w.pool_manager, &pm::QueryMsg::ReverseSimulation { ask_asset: coin(ask, &ad), offer_asset_denom: od.clone(), pool_identifier: pi.pool_identifier.clone() });
                rec.count("c12_state_reverse_quotes");
                let Ok(q) = q else {
                    rec.outcome("ReverseSimulation(state)", "refused");
                    continue;
                };
                rec.outcome("ReverseSimulation(state)", "ok");
                rec.validated += 1;
                let off = q.offer_amount.u128().saturating_add(1);
                let s: Result<pm::SimulationResponse, String> = c.w.query(&c.w.pool_manager, &pm::QueryMsg::Simulation { offer_asset: coin(off, &od), ask_asset_denom: ad.clone(), pool_identifier: pi.pool_identifier.clone() });
                match s {
                    Ok(s) if s.return_amount.u128() >= ask => {}
                    Ok(s) => rec.viol("C12_reverse_quote_short", format!("pool {} reserves {:?}: ReverseSimulation for {ask}{ad} quotes {}{od}; offering one unit more returns only {}", pi.pool_identifier, pi.assets, q.offer_amount, s.return_amount)),
                    Err(e) => rec.viol("C12_reverse_then_sim_failed", format!("pool {} reserves {:?}: ReverseSimulation for {ask}{ad} quotes {}{od} but Simulation of quote+1 fails: {e}", pi.pool_identifier, pi.assets, q.offer_amount)),
                }
            }
        }
    }
}

// ---- (b) reverse quotes on constant-product pools

#[derive(Serialize, Deserialize, Debug, Clone)]
pub struct RevPt {
    pub x: u128, // offer reserve
    pub y: u128, // ask reserve
    pub ask: u128,
    pub fees: FeeSpec,
}

/// Prepared pool with reserves exactly (x, y): first deposit by the owner. Reserves must satisfy
/// sqrt(xy) > 1000 for the first deposit, so small reserves are reached by a large first deposit
/// followed by a withdrawal... which cannot hit arbitrary values; instead the pool is created with
/// the wanted reserves scaled by nothing: small (x,y) grids use x,y >= 1001.
fn rev_eval(w: &mut World, p: &RevPt, rec: &mut Rec) -> bool {
    let cfg = cfg();
    restore_base(w, "c12rev", &cfg, |_| {});
    let mk = PuOp::CreatePool { u: OWNER, denoms: vec!["uom".into(), "uusd".into()], decimals: vec![6, 6], fees: p.fees.clone(), amp: None, id: Some("r".into()), funds: vec![("uom".into(), 8888), ("uusd".into(), 1000)] };
    if !apply(w, &mk).is_ok() {
        rec.viol("C12_rev_setup", "pool creation refused".into());
        return false;
    }
    let dep = PuOp::Provide { u: OWNER, pool: "o.r".into(), funds: vec![("uom".into(), p.x), ("uusd".into(), p.y)], lock: None, lock_id: None, recv: None, liq_slip: None, swap_slip: None };
    if !apply(w, &dep).is_ok() {
        rec.count("c12_rev_first_deposit_refused");
        return false;
    }
    let q: Result<pm::ReverseSimulationResponse, String> = w.query(&w.pool_manager, &pm::QueryMsg::ReverseSimulation { ask_asset: coin(p.ask, "uusd"), offer_asset_denom: "uom".into(), pool_identifier: "o.r".into() });
    let q = match q {
        Ok(q) => q,
        Err(_) => {
            rec.outcome("ReverseSimulation", "refused");
            return false;
        }
    };
    rec.outcome("ReverseSimulation", "ok");
    let off = q.offer_amount.u128().saturating_add(1);
    let s: Result<pm::SimulationResponse, String> = w.query(&w.pool_manager, &pm::QueryMsg::Simulation { offer_asset: coin(off, "uom"), ask_asset_denom: "uusd".into(), pool_identifier: "o.r".into() });
    match s {
        Ok(s) => {
            if s.return_amount.u128() < p.ask {
                let key = format!("x={} y={} ask={} fees={:?} quote={} got={}", p.x, p.y, p.ask, p.fees, q.offer_amount, s.return_amount);
                rec.viol_kf("C12_reverse_quote_short", key, format!("reserves {}/{} ask {}: ReverseSimulation quotes {}, offering one unit more returns only {}", p.x, p.y, p.ask, q.offer_amount, s.return_amount));
            }
            true
        }
        Err(e) => {
            rec.viol_kf("C12_reverse_then_sim_failed", format!("x={} y={} ask={} fees={:?} quote={}", p.x, p.y, p.ask, p.fees, q.offer_amount), format!("{:?}: Simulation of quote+1 = {off} failed: {e}", p));
            true
        }
    }
}

pub fn rev_points(tier: Tier) -> Vec<RevPt> {
    let mut v = vec![];
    let feesets = vec![zero_fees(), std_fees(), FeeSpec { p: 0, s: 30, b: 0, x: vec![] }, cap_fees(), FeeSpec { p: 1, s: 1, b: 1, x: vec![1] }];
    // exhaustive small grid (reserves >= 1001 so the first deposit is accepted)
    let n = tier.pick(12u128, 40u128);
    for f in &feesets {
        for dx in 0..n {
            for dy in 0..n {
                let (x, y) = (1001 + dx * 7, 1001 + dy * 13);
                for ask in [1u128, 2, 3, y / 7, y / 2, y - 2] {
                    v.push(RevPt { x, y, ask, fees: f.clone() });
                }
            }
        }
    }
    // magnitudes
    let ks: Vec<u32> = tier.pick(vec![4, 9, 18, 24, 30], (4..=30).step_by(2).collect());
    for f in &feesets {
        for kx in &ks {
            for ky in &ks {
                for (mx, my) in [(1u128, 1u128), (3, 1), (1, 7)] {
                    let (x, y) = (mx * 10u128.pow(*kx), my * 10u128.pow(*ky));
                    for ask in [1u128, y / 1000 + 1, y / 3, y / 2 + 1] {
                        if ask < y {
                            v.push(RevPt { x, y, ask, fees: f.clone() });
                            v.push(RevPt { x: x + 1, y: y - 1, ask, fees: f.clone() });
                        }
                    }
                }
            }
        }
    }
    v
}

pub fn jobs(tier: Tier) -> Vec<Job> {
    let full = PuChecker { name: "c12-pu-full".into(), seeds: vec!["S1", "S2", "S2r", "S3", "S4", "S5", "S6", "S8", "S8a"], alpha: Alpha::Full, oracles: vec![oracle] };
    let core = PuChecker { name: "c12-pu-swapfocus".into(), seeds: vec!["S2", "S4"], alpha: Alpha::SwapFocus, oracles: vec![oracle] };
    vec![
        explore_job(full, tier.pick(2, 3), Caps::default()),
        explore_job(core, tier.pick(3, 4), Caps::default()),
        grid_job(
            "c12-reverse-grid",
            "constant-product pools with reserves over an exhaustive small grid and magnitudes 10^4..10^30 (incl. ±1), asks {1,2,3,fractions of the ask reserve}, five fee sets: ReverseSimulation q then Simulation(q+1) >= ask; non-trivial = pool could be funded and the reverse quote answered",
            cfg,
            rev_points(tier),
            rev_eval,
        ),
    ]
}
