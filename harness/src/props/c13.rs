//! C13 — price protections. Grid through real Swap / ExecuteSwapOperations / ProvideLiquidity messages with
//! an independent evaluation of the documented predicate in exact rationals (must-accept / must-reject /
//! don't-care band of the width of the contract's 18-digit roundings), boundary inputs constructed by
//! solving for equality, plus the PU route edges for minimum_receive.
use crate::engine::*;
use crate::exact::*;
use crate::pu::*;
use crate::report::*;
use crate::world::*;
use cosmwasm_std::{coin, Decimal, Uint128};
use mantra_dex_std::pool_manager as pm;
use num_bigint::BigInt;
use serde::{Deserialize, Serialize};

const E18: u128 = 1_000_000_000_000_000_000;
const DN: [&str; 4] = ["uom", "uusd", "uusdc", "uweth"];

#[derive(Clone, Debug, Serialize, Deserialize)]
pub enum P13 {
    /// constant-product swap uom->uusd; tol / belief as Decimal atomics (1e18 = 1.0)
    CpSwap { x: u128, y: u128, fees: FeeSpec, offer: u128, tol: Option<u128>, belief: Option<u128> },
    /// the same trade through ExecuteSwapOperations (1 hop, or 2 hops with a deep zero-fee second pool)
    CpRoute { x: u128, y: u128, fees: FeeSpec, offer: u128, tol: Option<u128>, hops: u8 },
    /// constant-product deposit with liquidity_max_slippage
    CpDeposit { x: u128, y: u128, d0: u128, d1: u128, tol: Option<u128> },
    /// single-asset deposit (uom) into a constant-product pool: its deposit leg (half the amount + the proceeds of the
    /// inner swap) is a constant-product deposit and must obey liquidity_max_slippage against the pool the inner swap leaves
    CpSingleDeposit { x: u128, y: u128, fees: FeeSpec, amount: u128, liq_tol: Option<u128>, swap_tol: Option<u128> },
    /// stableswap swap asset0->asset1 (or reverse) evaluated under the whole tolerance ladder, on the pool
    /// and on its economically identical twins in other decimals
    SsSwap { amp: u64, tokens_milli: Vec<u128>, offer_milli: u128, rev: bool, fees: FeeSpec },
    /// proportional stableswap deposit under each valid tolerance
    SsDeposit { amp: u64, decs: Vec<u8>, tokens_milli: Vec<u128>, frac_pct: u128 },
}

fn dec(atomics: u128) -> Decimal {
    Decimal::new(Uint128::new(atomics))
}

fn setup_pool(w: &mut World, decs: &[u8], res: &[u128], amp: Option<u64>, fees: &FeeSpec) -> bool {
    let cfg = cfg();
    restore_base(w, "c13", &cfg, |_| {});
    let dn: Vec<String> = DN[..decs.len()].iter().map(|s| s.to_string()).collect();
    let o = apply(w, &PuOp::CreatePool { u: OWNER, denoms: dn.clone(), decimals: decs.to_vec(), fees: fees.clone(), amp, id: Some("g".into()), funds: vec![("uom".into(), 8888), ("uusd".into(), 1000)] });
    if !o.is_ok() {
        return false;
    }
    apply(w, &PuOp::Provide { u: OWNER, pool: "o.g".into(), funds: dn.into_iter().zip(res.iter().cloned()).collect(), lock: None, lock_id: None, recv: None, liq_slip: None, swap_slip: None }).is_ok()
}

fn exec_swap(w: &mut World, offer: (&str, u128), ask: &str, tol: Option<u128>, belief: Option<u128>) -> Outcome {
    let (a, pma) = (w.users[A].clone(), w.pool_manager.clone());
    w.exec(&a, &pma, &pm::ExecuteMsg::Swap { ask_asset_denom: ask.into(), belief_price: belief.map(dec), max_slippage: tol.map(dec), receiver: None, pool_identifier: "o.g".into() }, &[coin(offer.1, offer.0)])
}

/// tolerance in effect: 1% when omitted, never more than 50%
fn eff_tol(tol: Option<u128>) -> u128 {
    tol.unwrap_or(E18 / 100).min(E18 / 2)
}

fn eval(w: &mut World, p: &P13, rec: &mut Rec) -> bool {
    match p {
        P13::CpSwap { x, y, fees, offer, tol, belief } => {
            if !setup_pool(w, &[6, 6], &[*x, *y], None, fees) {
                rec.count("c13_setup_refused");
                return false;
            }
            let pma = w.pool_manager.clone();
            let sim: Result<pm::SimulationResponse, String> = w.query(&pma, &pm::QueryMsg::Simulation { offer_asset: coin(*offer, "uom"), ask_asset_denom: "uusd".into(), pool_identifier: "o.g".into() });
            let s0 = w.snapshot();
            let out = exec_swap(w, ("uom", *offer), "uusd", *tol, *belief);
            rec.outcome("CpSwap", out.class());
            if !out.is_ok() && w.app.storage().data != s0.storage.data {
                rec.viol("C13_failed_trade_changed_state", format!("{:?}", p));
            }
            // the return is computed independently (constant product, each fee floored on the gross output), so a
            // trade the contract cannot even quote is still judged
            let gross = big(*y) * big(*offer) / (big(*x) + big(*offer));
            let fl = |bps: u64| &gross * big(bps as u128) / big(10_000);
            let fee_total: BigInt = fl(fees.p) + fl(fees.s) + fl(fees.b) + fees.x.iter().map(|b| fl(*b)).sum::<BigInt>();
            let net_exact = &gross - &fee_total;
            match &sim {
                Ok(s) => {
                    if big(s.return_amount.u128()) != net_exact {
                        rec.count("c13_cp_quote_differs_from_exact");
                    }
                }
                Err(_) => rec.count("c13_cp_unquotable"),
            }
            let net = net_exact.clone();
            let sim_ret = sim.as_ref().map(|s| s.return_amount.to_string()).unwrap_or_else(|e| format!("unquotable: {e}"));
            let t = big(eff_tol(*tol));
            let den = big(E18);
            let slack = BigInt::from(2); // 2e-18 on the tolerance: the contract floors its ratio at 18 digits
            let (must_accept, must_reject);
            match belief {
                None => {
                    // loss ratio against the pre-trade price: 1 - net/ideal, ideal = offer*y/x
                    let ideal = big(*offer) * big(*y) / big(*x);
                    let ideal_hi = &ideal + 1;
                    let ideal_lo = &ideal - 1 - big(*offer) / big(E18) - 1;
                    // accept iff (I - net)/I <= tol  <=>  (I - net)*den <= tol*I
                    must_accept = (&ideal_hi - &net) * &den <= &t * &ideal_hi;
                    must_reject = ideal_lo > BigInt::from(0) && (&ideal_lo - &net) * &den > (&t + &slack) * &ideal_lo;
                }
                Some(b) => {
                    // accept iff net >= offer/belief * (1 - tol); expected in [E_lo, E_hi] through the 18-digit inverse
                    let e_hi = big(*offer) * &den / big(*b) + 1;
                    // 1/belief is truncated at 18 digits: relative error up to belief*1e-18 (+1 unit for the floor)
                    let e_lo = big(*offer) * &den / big(*b) - big(*offer) * big(*b) / &den / &den - big(*offer) / &den - 2;
                    must_accept = net >= e_hi || (&e_hi - &net) * &den <= &t * &e_hi;
                    must_reject = e_lo > BigInt::from(0) && net < e_lo && (&e_lo - &net) * &den > (&t + &slack) * &e_lo;
                }
            }
            rec.count(if must_accept { "c13_cp_must_accept" } else if must_reject { "c13_cp_must_reject" } else { "c13_cp_dont_care_band" });
            if must_accept && !out.is_ok() {
                rec.viol_kf("C13_protected_trade_refused", format!("{:?}", p), format!("{:?}: return {} (quote: {}) is within the tolerance but the swap was refused: {}", p, net_exact, sim_ret, out.err_text()));
            }
            if must_reject && out.is_ok() {
                rec.viol_kf("C13_unprotected_trade_executed", format!("{:?}", p), format!("{:?}: return {} (quote: {}) is outside the tolerance but the swap executed", p, net_exact, sim_ret));
            }
            true
        }
        P13::CpRoute { x, y, fees, offer, tol, hops } => {
            if !setup_pool(w, &[6, 6], &[*x, *y], None, fees) {
                rec.count("c13_setup_refused");
                return false;
            }
            if *hops == 2 {
                // second hop uusd -> uweth through a deep zero-fee pool: its own price impact is negligible
                let o = apply(w, &PuOp::CreatePool { u: OWNER, denoms: vec!["uusd".into(), "uweth".into()], decimals: vec![6, 6], fees: zero_fees(), amp: None, id: Some("h".into()), funds: vec![("uom".into(), 8888), ("uusd".into(), 1000)] });
                let deep = y.saturating_mul(1_000_000).max(10u128.pow(12));
                let o2 = apply(w, &PuOp::Provide { u: OWNER, pool: "o.h".into(), funds: vec![("uusd".into(), deep), ("uweth".into(), deep)], lock: None, lock_id: None, recv: None, liq_slip: None, swap_slip: None });
                if !o.is_ok() || !o2.is_ok() {
                    rec.count("c13_setup_refused");
                    return false;
                }
            }
            let pma = w.pool_manager.clone();
            let sim: Result<pm::SimulationResponse, String> = w.query(&pma, &pm::QueryMsg::Simulation { offer_asset: coin(*offer, "uom"), ask_asset_denom: "uusd".into(), pool_identifier: "o.g".into() });
            let mut hopsv = vec![("uom".to_string(), "uusd".to_string(), "o.g".to_string())];
            if *hops == 2 {
                hopsv.push(("uusd".to_string(), "uweth".to_string(), "o.h".to_string()));
            }
            let s0 = w.snapshot();
            let a = w.users[A].clone();
            let out = w.exec(&a, &pma, &pm::ExecuteMsg::ExecuteSwapOperations { operations: ops_of(&hopsv), minimum_receive: None, receiver: None, max_slippage: tol.map(dec) }, &[coin(*offer, "uom")]);
            rec.outcome("CpRoute", out.class());
            if !out.is_ok() && w.app.storage().data != s0.storage.data {
                rec.viol("C13_failed_route_changed_state", format!("{:?}", p));
            }
            let Ok(sim) = sim else { return true };
            let net = big(sim.return_amount.u128());
            let t = big(eff_tol(*tol));
            let den = big(E18);
            let ideal = big(*offer) * big(*y) / big(*x);
            let ideal_hi = &ideal + 1;
            let ideal_lo = &ideal - 1 - big(*offer) / big(E18) - 1;
            let must_accept = *hops == 1 && (&ideal_hi - &net) * &den <= &t * &ideal_hi;
            let must_reject = ideal_lo > BigInt::from(0) && (&ideal_lo - &net) * &den > (&t + BigInt::from(2)) * &ideal_lo;
            rec.count(if must_accept { "c13_route_must_accept" } else if must_reject { "c13_route_must_reject" } else { "c13_route_dont_care" });
            if must_accept && !out.is_ok() {
                rec.viol("C13_protected_route_refused", format!("{:?}: first-hop return {} is within the tolerance but the route was refused: {}", p, sim.return_amount, out.err_text()));
            }
            if must_reject && out.is_ok() {
                rec.viol("C13_unprotected_route_executed", format!("{:?}: the first hop returns {} which is outside the tolerance (never more than 50%), but the route executed", p, sim.return_amount));
            }
            true
        }
        P13::CpDeposit { x, y, d0, d1, tol } => {
            if !setup_pool(w, &[6, 6], &[*x, *y], None, &zero_fees()) {
                rec.count("c13_setup_refused");
                return false;
            }
            let s0 = w.snapshot();
            let (a, pma) = (w.users[A].clone(), w.pool_manager.clone());
            let out = w.exec(&a, &pma, &pm::ExecuteMsg::ProvideLiquidity { liquidity_max_slippage: tol.map(dec), swap_max_slippage: None, receiver: None, pool_identifier: "o.g".into(), unlocking_duration: None, lock_position_identifier: None }, &[coin(*d0, "uom"), coin(*d1, "uusd")]);
            rec.outcome("CpDeposit", out.class());
            if !out.is_ok() && w.app.storage().data != s0.storage.data {
                rec.viol("C13_failed_deposit_changed_state", format!("{:?}", p));
            }
            let Some(t) = tol else {
                if !out.is_ok() {
                    rec.viol("C13_deposit_without_tolerance_refused", format!("{:?}: {}", p, out.err_text()));
                }
                return true;
            };
            if *t > E18 {
                if out.is_ok() {
                    rec.viol("C13_tolerance_above_one_accepted", format!("{:?}", p));
                }
                return true;
            }
            // accepted iff both d0/d1*(1-t) <= x/y and d1/d0*(1-t) <= y/x   (exact rationals, band 3e-18 relative)
            let om = big(E18 - *t);
            let den = big(E18);
            let within = |a: u128, b: u128, pa: u128, pb: u128, eps: i64| -> bool {
                // a/b*(1-t) <= pa/pb*(1+eps*1e-18)   <=>   a*om*pb*den <= pa*b*den*(den+eps)
                big(a) * &om * big(pb) * &den <= big(pa) * big(b) * &den * (big(E18) + eps) / BigInt::from(1)
            };
            let must_accept = within(*d0, *d1, *x, *y, -4) && within(*d1, *d0, *y, *x, -4);
            let must_reject = !within(*d0, *d1, *x, *y, 4) || !within(*d1, *d0, *y, *x, 4);
            rec.count(if must_accept { "c13_dep_must_accept" } else if must_reject { "c13_dep_must_reject" } else { "c13_dep_dont_care_band" });
            if must_accept && !out.is_ok() {
                rec.viol("C13_in_tolerance_deposit_refused", format!("{:?}: {}", p, out.err_text()));
            }
            if must_reject && out.is_ok() {
                rec.viol_kf("C13_out_of_tolerance_deposit_accepted", format!("{:?}", p), format!("{:?}: the deposit ratio is outside the tolerance of the pool ratio but the deposit was accepted", p));
            }
            true
        }
        P13::CpSingleDeposit { x, y, fees, amount, liq_tol, swap_tol } => {
            if !setup_pool(w, &[6, 6], &[*x, *y], None, fees) {
                rec.count("c13_setup_refused");
                return false;
            }
            let s0 = w.snapshot();
            let (a, pma) = (w.users[A].clone(), w.pool_manager.clone());
            let out = w.exec(&a, &pma, &pm::ExecuteMsg::ProvideLiquidity { liquidity_max_slippage: liq_tol.map(dec), swap_max_slippage: swap_tol.map(dec), receiver: None, pool_identifier: "o.g".into(), unlocking_duration: None, lock_position_identifier: None }, &[coin(*amount, "uom")]);
            rec.outcome("CpSingleDeposit", out.class());
            if !out.is_ok() && w.app.storage().data != s0.storage.data {
                rec.viol("C13_failed_deposit_changed_state", format!("{:?}", p));
            }
            // the inner swap on a copy of the state, as the depositor would do it
            w.restore(&s0);
            let half = *amount / 2;
            let b0 = w.balance(&a, "uusd");
            let sw = exec_swap(w, ("uom", half), "uusd", *swap_tol, None);
            if !sw.is_ok() {
                rec.count("c13_single_inner_swap_refused");
                if out.is_ok() {
                    rec.viol("C13_single_deposit_despite_refused_swap", format!("{:?}: the inner swap of {half} uom is refused under this swap tolerance ({}) but the single-asset deposit was accepted", p, sw.err_text()));
                }
                w.restore(&s0);
                return true;
            }
            let got = w.balance(&a, "uusd") - b0;
            let Some(pi) = observe_pool(w, "o.g") else { return false };
            let r = |d: &str| pi.pool_info.assets.iter().find(|c| c.denom == d).map(|c| c.amount.u128()).unwrap_or(0);
            let (x1, y1) = (r("uom"), r("uusd"));
            w.restore(&s0);
            let Some(t) = liq_tol else {
                return true; // without a deposit tolerance nothing is promised here (C14 compares the two paths)
            };
            if *t > E18 || got == 0 || half == 0 {
                return true;
            }
            let om = big(E18 - *t);
            let den = big(E18);
            let within = |a: u128, b: u128, pa: u128, pb: u128, eps: i64| -> bool { big(a) * &om * big(pb) * &den <= big(pa) * big(b) * &den * (big(E18) + eps) / BigInt::from(1) };
            let must_accept = within(half, got, x1, y1, -4) && within(got, half, y1, x1, -4);
            let must_reject = !within(half, got, x1, y1, 4) || !within(got, half, y1, x1, 4);
            rec.count(if must_accept { "c13_single_must_accept" } else if must_reject { "c13_single_must_reject" } else { "c13_single_dont_care_band" });
            if must_reject && out.is_ok() {
                rec.viol_kf("C13_out_of_tolerance_deposit_accepted", format!("{:?}", p), format!("{:?}: after the inner swap the pool holds {x1}/{y1} and the deposit leg is {half} uom + {got} uusd, outside the deposit tolerance, but the single-asset deposit was accepted", p));
            }
            if must_accept && !out.is_ok() {
                // refused although the deposit leg is within the tolerance: only the tolerance's doing if the very same
                // deposit without a deposit tolerance is accepted (tiny deposits are refused for minting no LP at all)
                let plain = w.exec(&a, &pma, &pm::ExecuteMsg::ProvideLiquidity { liquidity_max_slippage: None, swap_max_slippage: swap_tol.map(dec), receiver: None, pool_identifier: "o.g".into(), unlocking_duration: None, lock_position_identifier: None }, &[coin(*amount, "uom")]);
                w.restore(&s0);
                if plain.is_ok() {
                    rec.viol("C13_in_tolerance_deposit_refused", format!("{:?}: deposit leg {half}/{got} against {x1}/{y1} is within the tolerance but the single-asset deposit was refused: {}", p, out.err_text()));
                } else {
                    rec.count("c13_single_refused_for_another_reason");
                }
            }
            true
        }
        P13::SsSwap { amp, tokens_milli, offer_milli, rev, fees } => {
            // the same economic pool in several decimals; decision vectors over the tolerance ladder
            let ladder: Vec<Option<u128>> = vec![Some(0), Some(E18 / 1000), None, Some(E18 / 20), Some(E18 / 2), Some(E18)];
            let decsets: Vec<Vec<u8>> = if tokens_milli.len() == 2 { vec![vec![6, 6], vec![6, 18], vec![18, 6], vec![18, 18]] } else { vec![vec![6, 6, 6], vec![6, 6, 18], vec![6, 18, 6], vec![18, 18, 6], vec![18, 18, 18]] };
            let mut ref_dec: Option<(Vec<bool>, Vec<Option<(u128, u128)>>)> = None;
            for decs in &decsets {
                let res: Vec<u128> = tokens_milli.iter().zip(decs).map(|(t, d)| t * 10u128.pow(*d as u32 - 3)).collect();
                if !setup_pool(w, decs, &res, Some(*amp), fees) {
                    rec.count("c13_setup_refused");
                    return false;
                }
                let base = w.snapshot();
                let (oi, ai) = if *rev { (1, 0) } else { (0, 1) };
                let off = offer_milli * 10u128.pow(decs[oi] as u32 - 3);
                let mut decisions = vec![];
                let mut spreads = vec![];
                for tol in &ladder {
                    w.restore(&base);
                    let pma = w.pool_manager.clone();
                    let sim: Result<pm::SimulationResponse, String> = w.query(&pma, &pm::QueryMsg::Simulation { offer_asset: coin(off, DN[oi]), ask_asset_denom: DN[ai].into(), pool_identifier: "o.g".into() });
                    let s0 = w.snapshot();
                    let out = exec_swap(w, (DN[oi], off), DN[ai], *tol, None);
                    rec.outcome("SsSwap", out.class());
                    rec.count("c13_ss_swaps");
                    if !out.is_ok() && w.app.storage().data != s0.storage.data {
                        rec.viol("C13_failed_trade_changed_state", format!("{:?} decs {:?} tol {:?}", p, decs, tol));
                    }
                    decisions.push(out.is_ok());
                    spreads.push(sim.ok().map(|s| (s.slippage_amount.u128(), s.return_amount.u128() + s.slippage_amount.u128())));
                }
                // (i) a larger tolerance never rejects what a smaller one accepts (ladder is ascending; None = 1%)
                for i in 1..decisions.len() {
                    if decisions[i - 1] && !decisions[i] {
                        rec.viol("C13_tolerance_not_monotone", format!("{:?} decs {:?}: accepted under {:?} but refused under {:?}", p, decs, ladder[i - 1], ladder[i]));
                    }
                }
                // (ii) decimals invariance against the (6,6) twin
                match &ref_dec {
                    None => ref_dec = Some((decisions.clone(), spreads.clone())),
                    Some((rd, rs)) => {
                        for i in 0..decisions.len() {
                            if decisions[i] != rd[i] {
                                // don't-care band: the 6-decimals twin's spread ratio is within two smallest units of the tolerance
                                let band = match rs[i] {
                                    Some((sp, tot)) if tot > 0 => {
                                        let t = big(eff_tol(ladder[i]));
                                        let lo = big(sp.saturating_sub(2)) * big(E18);
                                        let hi = big(sp + 2) * big(E18);
                                        lo <= &t * big(tot) && &t * big(tot) <= hi
                                    }
                                    _ => true,
                                };
                                if band {
                                    rec.count("c13_ss_decimals_band");
                                } else {
                                    rec.viol_kf("C13_decision_depends_on_decimals", format!("{:?} decs={:?} tol={:?}", p, decs, ladder[i]), format!("{:?}: under tolerance {:?} the trade is {} on the (6,6) pool but {} on the economically identical {:?} pool", p, ladder[i], if rd[i] { "accepted" } else { "refused" }, if decisions[i] { "accepted" } else { "refused" }, decs));
                                }
                            }
                        }
                    }
                }
            }
            true
        }
        P13::SsDeposit { amp, decs, tokens_milli, frac_pct } => {
            let res: Vec<u128> = tokens_milli.iter().zip(decs).map(|(t, d)| t * 10u128.pow(*d as u32 - 3)).collect();
            if !setup_pool(w, decs, &res, Some(*amp), &zero_fees()) {
                rec.count("c13_setup_refused");
                return false;
            }
            let base = w.snapshot();
            let dn: Vec<String> = DN[..decs.len()].iter().map(|s| s.to_string()).collect();
            for tol in [None, Some(0u128), Some(E18 / 100), Some(E18 / 2), Some(E18), Some(E18 + 1)] {
                w.restore(&base);
                let (a, pma) = (w.users[A].clone(), w.pool_manager.clone());
                let funds: Vec<cosmwasm_std::Coin> = dn.iter().zip(&res).map(|(d, r)| coin(r * frac_pct / 100, d)).collect();
                let s0 = w.snapshot();
                let out = w.exec(&a, &pma, &pm::ExecuteMsg::ProvideLiquidity { liquidity_max_slippage: tol.map(dec), swap_max_slippage: None, receiver: None, pool_identifier: "o.g".into(), unlocking_duration: None, lock_position_identifier: None }, &funds);
                rec.outcome("SsDeposit", out.class());
                rec.count("c13_ss_deposits");
                if !out.is_ok() && w.app.storage().data != s0.storage.data {
                    rec.viol("C13_failed_deposit_changed_state", format!("{:?} tol {:?}", p, tol));
                }
                match tol {
                    Some(t) if t > E18 => {
                        if out.is_ok() {
                            rec.viol("C13_tolerance_above_one_accepted", format!("{:?}", p));
                        }
                    }
                    _ => {
                        if !out.is_ok() {
                            rec.viol_kf("C13_proportional_deposit_refused", format!("{:?} tol={:?}", p, tol), format!("{:?}: a deposit in exact pool proportion under tolerance {:?} was refused: {}", p, tol, out.err_text()));
                        }
                    }
                }
            }
            true
        }
    }
}

pub fn points(tier: Tier) -> Vec<P13> {
    let mut v = vec![];
    let tols: Vec<Option<u128>> = vec![None, Some(0), Some(E18 / 1000), Some(E18 / 100), Some(E18 / 20), Some(E18 / 2), Some(E18 * 6 / 10), Some(E18), Some(2 * E18)];
    let feesets = tier.pick(vec![zero_fees(), std_fees()], vec![zero_fees(), std_fees(), FeeSpec { p: 0, s: 30, b: 0, x: vec![] }, cap_fees()]);
    let pools: Vec<(u128, u128)> = tier.pick(vec![(1_000_000, 2_000_000), (10u128.pow(12), 3 * 10u128.pow(9)), (5 * 10u128.pow(18), 10u128.pow(24)), (10u128.pow(24), 10_000), (3 * 10u128.pow(18) + 1, 9_999)], vec![(1_000_000, 2_000_000), (1001, 1003), (10u128.pow(12), 3 * 10u128.pow(9)), (5 * 10u128.pow(18), 10u128.pow(24)), (7 * 10u128.pow(24), 7 * 10u128.pow(24) + 1), (10u128.pow(9), 10u128.pow(15)), (10u128.pow(24), 10_000), (3 * 10u128.pow(18) + 1, 9_999), (10u128.pow(27), 70_000)]);
    for (x, y) in &pools {
        for f in &feesets {
            let ftot: u128 = (f.p + f.s + f.b + f.x.iter().sum::<u64>()) as u128; // bps
            for tol in &tols {
                let t = eff_tol(*tol);
                // boundary offer: 1 - (1-f) x/(x+o) = t  =>  o = x*((1-f)/(1-t) - 1)
                let mut offers: Vec<u128> = vec![1, x / 1000 + 1, x / 100, x / 10, *x, x.saturating_mul(3)];
                if t < E18 {
                    let num = big(*x) * (big(10_000 - ftot) * big(E18) - big(10_000) * big(E18 - t));
                    let den = big(10_000) * big(E18 - t);
                    if num > BigInt::from(0) {
                        let o = to_u128(&(num / den));
                        for dlt in [-2i128, -1, 0, 1, 2] {
                            let oo = o as i128 + dlt;
                            if oo > 0 {
                                offers.push(oo as u128);
                            }
                        }
                    }
                }
                offers.sort();
                offers.dedup();
                for o in offers {
                    if o == 0 {
                        continue;
                    }
                    v.push(P13::CpSwap { x: *x, y: *y, fees: f.clone(), offer: o, tol: *tol, belief: None });
                    if *x <= 10u128.pow(19) {
                        v.push(P13::CpRoute { x: *x, y: *y, fees: f.clone(), offer: o, tol: *tol, hops: 1 });
                        v.push(P13::CpRoute { x: *x, y: *y, fees: f.clone(), offer: o, tol: *tol, hops: 2 });
                    }
                }
            }
            // belief price variants: belief = pool price x {0.5, 0.99, 1, 1.01, 2}, tolerance ladder
            for tol in [None, Some(0u128), Some(E18 / 100), Some(E18 / 2), Some(E18 * 7 / 10), Some(E18), Some(2 * E18)] {
                for (bn, bd) in [(1u128, 2u128), (99, 100), (1, 1), (101, 100), (2, 1), (1, 1000)] {
                    // belief price = offer per ask = x/y scaled
                    let b = big(*x) * big(E18) * big(bn) / (big(*y) * big(bd));
                    let b = to_u128(&b);
                    if b == 0 || b == u128::MAX {
                        continue;
                    }
                    // offers up to several times the reserve: the return falls more than 50 % short of the belief
                    for o in [x / 1000 + 1, x / 100 + 1, x / 10 + 1, *x + *x / 2, *x * 4] {
                        v.push(P13::CpSwap { x: *x, y: *y, fees: f.clone(), offer: o, tol, belief: Some(b) });
                    }
                }
            }
        }
        // single-asset deposits: deposit tolerance x swap tolerance (independent of each other)
        for f in [zero_fees(), std_fees()] {
            for amount in [*x / 5 + 1, *x / 50 + 1, *x / 1000 + 2] {
                for liq_tol in [None, Some(E18 / 1000), Some(E18 / 100), Some(E18 / 50), Some(E18 / 5), Some(E18 / 2)] {
                    for swap_tol in [None, Some(E18 / 5), Some(E18 / 2)] {
                        v.push(P13::CpSingleDeposit { x: *x, y: *y, fees: f.clone(), amount, liq_tol, swap_tol });
                    }
                }
            }
        }
        // deposits around the ratio boundary
        for tol in [None, Some(0u128), Some(E18 / 1000), Some(E18 / 100), Some(E18 / 2), Some(E18), Some(E18 + 1)] {
            let t = tol.unwrap_or(0).min(E18);
            let d1 = y / 10 + 1;
            // proportional d0 and the boundary d0 = (x/y) d1 / (1 - t)
            let prop = to_u128(&(big(*x) * big(d1) / big(*y)));
            let mut d0s = vec![prop, prop + 1, prop.saturating_sub(1).max(1), prop * 2, prop / 2 + 1];
            if t < E18 {
                let b = to_u128(&(big(*x) * big(d1) * big(E18) / (big(*y) * big(E18 - t))));
                for dlt in [-1i128, 0, 1, 2] {
                    if b as i128 + dlt > 0 {
                        d0s.push((b as i128 + dlt) as u128);
                    }
                }
            }
            d0s.sort();
            d0s.dedup();
            for d0 in d0s {
                if d0 > 0 && d0 < 10u128.pow(34) {
                    v.push(P13::CpDeposit { x: *x, y: *y, d0, d1, tol });
                }
            }
        }
    }
    // stableswap
    let amps: Vec<u64> = tier.pick(vec![10, 100], vec![1, 10, 100, 5000]);
    for amp in &amps {
        for toks in [vec![1_000_000_000u128, 1_000_000_000], vec![1_000_000_000, 300_000_000], vec![5_000_000, 50_000_000]] {
            for f in &feesets[..tier.pick(1, 2)] {
                for frac in tier.pick(vec![1u128, 100, 900], vec![1u128, 10, 100, 500, 900, 3000]) {
                    // offer = frac/1000 of the offer reserve (in milli-tokens)
                    for rev in [false, true] {
                        let oi = if rev { 1 } else { 0 };
                        let off = toks[oi] * frac / 1000;
                        if off > 0 {
                            v.push(P13::SsSwap { amp: *amp, tokens_milli: toks.clone(), offer_milli: off, rev, fees: f.clone() });
                        }
                    }
                }
            }
            // three-asset pools: the traded pair keeps fewer decimals than a third asset
            let mut t3 = toks.clone();
            t3.push(toks[0]);
            for frac in tier.pick(vec![10u128, 900], vec![1u128, 10, 100, 500, 900]) {
                for rev in [false, true] {
                    let oi = if rev { 1 } else { 0 };
                    v.push(P13::SsSwap { amp: *amp, tokens_milli: t3.clone(), offer_milli: t3[oi] * frac / 1000, rev, fees: feesets[0].clone() });
                }
            }
            for decs in [vec![6u8, 6], vec![6, 18]] {
                for frac in [1u128, 50] {
                    v.push(P13::SsDeposit { amp: *amp, decs: decs.clone(), tokens_milli: toks.clone(), frac_pct: frac });
                }
            }
        }
    }
    v
}

/// minimum_receive on the PU route edges: the route executes iff its (exact, by C12) quote reaches the minimum
pub fn oracle_min_receive(c: &PuCtx, rec: &mut Rec) {
    if c.post_malformed() {
        return;
    }
    if let PuOp::Route { u, hops, amt, min: Some(m), recv, .. } = c.op {
        // whatever the route looks like (pools may be visited twice): if it executed, the receiver got at least minimum_receive
        if c.out.is_ok() {
            let r = recv.unwrap_or(*u);
            let (first, last) = (&hops[0].0, &hops.last().unwrap().1);
            let got = c.delta(r, last) + if r == *u && last == first { *amt as i128 } else { 0 };
            rec.count("c13_routes_with_minimum_executed");
            if got < *m as i128 {
                rec.viol("C13_minimum_receive_not_delivered", format!("{:?}: executed but delivered {got} < minimum_receive {m}", c.op));
            }
        }
        let mut seen = std::collections::BTreeSet::new();
        if !hops.iter().all(|h| seen.insert(h.2.clone())) {
            if !c.out.is_ok() && !c.storage_unchanged {
                rec.viol("C13_failed_route_changed_state", format!("{:?}", c.op));
            }
            return;
        }
        if let Some(Ok(q)) = &c.quote.route {
            rec.validated += 1;
            let should = q.return_amount.u128() >= *m;
            if c.out.is_ok() != should {
                rec.viol("C13_minimum_receive", format!("route quote {} minimum_receive {m}: executed={}", q.return_amount, c.out.is_ok()));
            }
        }
        if !c.out.is_ok() && !c.storage_unchanged {
            rec.viol("C13_failed_route_changed_state", format!("{:?}", c.op));
        }
    }
    if let PuOp::Swap { .. } = c.op {
        if !c.out.is_ok() && !c.storage_unchanged {
            rec.viol("C13_failed_trade_changed_state", format!("{:?}", c.op));
        }
    }
}

pub fn jobs(tier: Tier) -> Vec<Job> {
    let routes = PuChecker { name: "c13-pu-routes".into(), seeds: vec!["S2", "S4"], alpha: Alpha::SwapFocus, oracles: vec![oracle_min_receive, oracle_default_slippage] };
    vec![
        grid_job(
            "c13-protection-grid",
            "constant-product swaps over {pools} x {fee sets} x {tolerance: omitted, 0, 0.1%, 1%, 5%, 50%, 60%, 100%, 200%} x {offers incl. the solved boundary offer and its neighbours}, belief-price variants, deposits at the solved ratio boundary; stableswap swaps under the whole tolerance ladder on (6,6)/(6,18)/(18,6)/(18,18) twins, proportional stableswap deposits under every valid tolerance; non-trivial = pool could be prepared",
            cfg,
            points(tier),
            eval,
        ),
        explore_job(routes, tier.pick(2, 3), Caps::default()),
    ]
}
