//! C14 — single-asset deposit equals swap-half-then-deposit, is atomic, leaves no residue, is refused on
//! empty / larger pools and cannot lock for others. Twin-run differential inside the PU exploration.
use crate::engine::*;
use crate::props::c20;
use crate::pu::*;
use crate::report::*;
use crate::world::*;

pub fn oracle(c: &PuCtx, rec: &mut Rec) {
    if c.post_malformed() {
        return; // a pool lost part of its reserve list (C16 reports it); nothing here is defined on such a state
    }
    let PuOp::Provide { u, pool, funds, lock, lock_id, recv, liq_slip, swap_slip } = c.op else { return };
    if funds.len() != 1 {
        return;
    }
    rec.count("c14_single_asset_deposits");
    let ok = c.out.is_ok();
    if !ok {
        if !c.storage_unchanged {
            rec.viol("C14_failed_single_deposit_left_trace", format!("{:?}", c.op));
        }
    }
    if c.buffer_present {
        rec.viol("C14_buffer_left", format!("after {:?} (accepted={ok})", c.op));
    }
    let Some(pre_p) = c.pre.pool(pool) else {
        if ok {
            rec.viol("C14_unknown_pool_accepted", format!("{:?}", c.op));
        }
        return;
    };
    let n = pre_p.pool_info.assets.len();
    let funded = pre_p.pool_info.assets.iter().all(|a| !a.amount.is_zero());
    if (n != 2 || !funded) && ok {
        rec.viol("C14_accepted_on_empty_or_larger_pool", format!("{:?} on pool with {n} assets, funded={funded}", c.op));
    }
    // locking for someone else / into someone else's position
    let foreign_recv = lock.is_some() && recv.map_or(false, |r| r != *u && r != 99);
    let foreign_pos = lock.is_some() && lock_id.as_ref().map_or(false, |i| c.pre.positions.iter().any(|p| &p.identifier == i && p.receiver != c.w.users[*u]));
    if (foreign_recv || foreign_pos) && ok {
        rec.viol("C14_locked_for_someone_else", format!("{:?}", c.op));
    }
    if n != 2 || !funded {
        return;
    }
    let (d, a) = (&funds[0].0, funds[0].1);
    let Some(other) = pre_p.pool_info.assets.iter().find(|x| &x.denom != d) else { return };
    let other = other.denom.clone();
    // twin: swap half, then deposit half + proceeds
    let cfgw = cfg();
    let twin = with_scratch(&cfgw, c.s0, |w2| {
        let b0 = w2.balance(&w2.users[*u].clone(), &other);
        let o1 = apply(w2, &PuOp::Swap { u: *u, pool: pool.clone(), offer: vec![(d.clone(), a / 2)], ask: other.clone(), slip: *swap_slip, belief: None, recv: None });
        if !o1.is_ok() {
            return Err(format!("swap leg: {}", o1.err_text()));
        }
        let proceeds = w2.balance(&w2.users[*u].clone(), &other) - b0;
        let o2 = apply(w2, &PuOp::Provide { u: *u, pool: pool.clone(), funds: vec![(d.clone(), a / 2), (other.clone(), proceeds)], lock: *lock, lock_id: lock_id.clone(), recv: *recv, liq_slip: *liq_slip, swap_slip: *swap_slip });
        if !o2.is_ok() {
            return Err(format!("deposit leg: {}", o2.err_text()));
        }
        Ok(observe(w2))
    });
    match (ok, twin) {
        (true, Ok(t)) => {
            rec.validated += 1;
            rec.count("c14_twin_compared");
            let post = c.post;
            if t.pools != post.pools {
                rec.viol("C14_twin_pools_differ", format!("{:?}: single message leaves {:?}, swap+deposit leaves {:?}", c.op, post.pools.iter().map(|p| (&p.pool_info.assets, &p.total_share)).collect::<Vec<_>>(), t.pools.iter().map(|p| (&p.pool_info.assets, &p.total_share)).collect::<Vec<_>>()));
            }
            if t.supply != post.supply {
                rec.viol("C14_twin_supply_differs", format!("{:?} vs {:?}", post.supply, t.supply));
            }
            if t.positions != post.positions {
                rec.viol("C14_twin_positions_differ", format!("{:?} vs {:?}", post.positions, t.positions));
            }
            let odd = (a % 2) as i128;
            for acc in 0..post.bal.len() {
                let mut denoms: std::collections::BTreeSet<String> = post.bal[acc].keys().cloned().collect();
                denoms.extend(t.bal[acc].keys().cloned());
                for dn in denoms {
                    let diff = post.b(acc, &dn) as i128 - t.b(acc, &dn) as i128;
                    let want = if &dn == d && acc == *u { -odd } else if &dn == d && acc == PM { odd } else { 0 };
                    if diff != want {
                        rec.viol("C14_twin_balances_differ", format!("{:?}: account #{acc} {dn}: single-message minus two-step = {diff}, expected {want}", c.op));
                    }
                }
            }
        }
        (true, Err(e)) => rec.viol("C14_single_ok_two_step_refused", format!("{:?}: {e}", c.op)),
        (false, Ok(_)) => {
            if !(foreign_recv || foreign_pos) {
                rec.viol_kf("C14_single_refused_two_step_ok", format!("{:?}", c.op), format!("{:?} refused ({}) although swapping half and depositing succeeds", c.op, c.out.err_text()));
            }
        }
        (false, Err(_)) => rec.count("c14_both_refused"),
    }
}

/// alphabet: every single-asset deposit shape on every pool + a few state-changing operations
pub fn alphabet(w: &World, pre: &PuObs) -> Vec<PuOp> {
    let mut ops = vec![];
    for p in &pre.pools {
        let id = p.pool_info.pool_identifier.clone();
        let assets = &p.pool_info.assets;
        let funded = assets.iter().all(|c| !c.amount.is_zero());
        let lp = &p.pool_info.lp_denom;
        let mk = |u: usize, d: &str, a: u128, lock: Option<u64>, lock_id: Option<String>, recv: Option<usize>, liq: Option<u64>, sw: Option<u64>| PuOp::Provide { u, pool: id.clone(), funds: vec![(d.to_string(), a)], lock, lock_id, recv, liq_slip: liq, swap_slip: sw };
        for (i, c) in assets.iter().enumerate().take(2) {
            let r = c.amount.u128();
            let base = if r == 0 { 100_001 } else { r / 100 };
            let odd = base | 1;
            let even = odd + 1;
            ops.push(mk(A, &c.denom, odd, None, None, None, None, Some(5000)));
            ops.push(mk(A, &c.denom, even, None, None, Some(B), None, Some(5000)));
            // a receiver string that is not a valid address (the contract falls back to the sender), unlocked and locked
            ops.push(mk(A, &c.denom, even, None, None, Some(99), None, Some(5000)));
            if i == 0 {
                ops.push(mk(A, &c.denom, odd, Some(DAY), None, Some(99), None, Some(5000)));
                ops.push(mk(A, &c.denom, odd, Some(DAY), None, None, None, Some(5000)));
                ops.push(mk(A, &c.denom, even, Some(DAY), Some("mine".into()), None, None, Some(5000)));
                ops.push(mk(A, &c.denom, odd, Some(DAY), None, Some(B), None, Some(5000))); // lock for someone else: refused
                ops.push(mk(A, &c.denom, odd, Some(DAY), None, Some(PM), None, Some(5000))); // lock for the pool manager contract itself: refused
                ops.push(mk(A, &c.denom, even, Some(DAY), None, Some(FM), None, Some(5000))); // lock for the farm manager contract: refused
                ops.push(mk(A, &c.denom, odd, Some(1), None, None, None, Some(5000))); // farm manager rejects the duration
                ops.push(mk(A, &c.denom, odd, Some(DAY), Some("bad id!".into()), None, None, Some(5000))); // farm manager rejects the identifier
                ops.push(mk(A, &c.denom, r / 3 + 1, None, None, None, None, Some(0))); // inner swap rejected by its slippage limit
                ops.push(mk(A, &c.denom, odd, None, None, None, Some(100), None)); // default swap slippage, deposit tolerance
                ops.push(mk(A, &c.denom, 1, None, None, None, None, Some(5000))); // half of it is zero
                ops.push(mk(A, &c.denom, 2, None, None, None, None, Some(5000)));
                // expanding positions: own and someone else's
                for pos in pre.positions.iter().filter(|x| x.open && &x.lp_asset.denom == lp).take(2) {
                    let who = if pos.receiver == w.users[A] { A } else { B };
                    ops.push(mk(A, &c.denom, even, Some(pos.unlocking_duration), Some(pos.identifier.clone()), None, None, Some(5000)));
                    let _ = who;
                }
            }
        }
        if funded {
            // state changes: skewing swap, balanced deposits (B locks one so that a foreign position exists), withdrawals, switches
            let (d0, d1) = (assets[0].denom.clone(), assets[1].denom.clone());
            ops.push(PuOp::Swap { u: B, pool: id.clone(), offer: vec![(d0.clone(), assets[0].amount.u128() / 7 + 1)], ask: d1.clone(), slip: Some(5000), belief: None, recv: None });
            let bal: Vec<(String, u128)> = assets.iter().map(|c| (c.denom.clone(), c.amount.u128() / 40 + 1)).collect();
            ops.push(PuOp::Provide { u: B, pool: id.clone(), funds: bal, lock: Some(DAY), lock_id: None, recv: None, liq_slip: None, swap_slip: None });
            let st = &p.pool_info.status;
            ops.push(PuOp::Toggle { u: OWNER, pool: id.clone(), w: None, d: None, s: Some(!st.swaps_enabled) });
        }
    }
    ops
}

pub fn jobs(tier: Tier) -> Vec<Job> {
    let chk = PuChecker { name: "c14-pu-single".into(), seeds: vec!["S1", "S2", "S2r", "S3", "S4"], alpha: Alpha::Custom(alphabet), oracles: vec![oracle, c20::pu_oracle] };
    let full = PuChecker { name: "c14-pu-full".into(), seeds: vec!["S0", "S2", "S5"], alpha: Alpha::Full, oracles: vec![oracle] };
    vec![explore_job(chk, tier.pick(2, 4), Caps::default()), explore_job(full, tier.pick(2, 3), Caps::default())]
}
