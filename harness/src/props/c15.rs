//! C15 — only authorised parties can perform privileged actions. BFS over the ownership state machine of each
//! contract (reference model of propose/accept/renounce with expiry), and in every reached state the complete
//! matrix {privileged message variant} x {sender role} x {funds none / 1uom} evaluated on a scratch restore.
use crate::engine::*;
use crate::fu::{self, FuOp, A, B, C, N_USERS, OWNER};
use crate::report::*;
use crate::world::*;
use cosmwasm_std::{coin, Addr, Coin, Decimal, Uint64};
use mantra_dex_std::epoch_manager as em;
use mantra_dex_std::farm_manager as fm;
use mantra_dex_std::pool_manager as pm;
use serde::{Deserialize, Serialize};

#[derive(Clone, Debug, Serialize, Deserialize, PartialEq)]
pub enum OwnAct {
    /// expiry: 0 none, 1 already expired (AtTime(now)), 2 future (now + 1000 s)
    Transfer { to: usize, expiry: u8 },
    Accept,
    Renounce,
}
#[derive(Clone, Debug, Serialize, Deserialize, PartialEq)]
pub enum OwnOp {
    Setup,
    Own { u: usize, act: OwnAct, funds: bool },
    Advance,
}
#[derive(Clone, Default, Debug, PartialEq, Eq, Hash)]
pub struct OwnGhost {
    pub owner: Option<usize>,
    pub pending: Option<(usize, Option<u64>)>,
}

#[derive(Clone)]
pub struct OwnChecker {
    pub contract: usize, // 0 pool manager, 1 farm manager, 2 epoch manager, 3 fee collector
}

fn contract_addr(w: &World, c: usize) -> Addr {
    match c {
        0 => w.pool_manager.clone(),
        1 => w.farm_manager.clone(),
        2 => w.epoch_manager.clone(),
        _ => w.fee_collector.clone(),
    }
}
fn sender_addr(w: &World, s: usize) -> Addr {
    // 0..3 users (0 initial owner, 1 proposed owner, 2 stranger, 3 farm/position owner), 4 pool manager, 5 farm manager,
    // 6 the account that deployed the epoch manager and the farm manager on behalf of the owner named in the message
    match s {
        4 => w.pool_manager.clone(),
        5 => w.farm_manager.clone(),
        6 => w.deployer.clone(),
        x => w.users[x].clone(),
    }
}

fn action(w: &World, act: &OwnAct) -> cw_ownable::Action {
    match act {
        OwnAct::Transfer { to, expiry } => cw_ownable::Action::TransferOwnership {
            new_owner: w.users[*to].to_string(),
            expiry: match expiry {
                0 => None,
                1 => Some(cw_ownable::Expiration::AtTime(cosmwasm_std::Timestamp::from_seconds(w.now()))),
                _ => Some(cw_ownable::Expiration::AtTime(cosmwasm_std::Timestamp::from_seconds(w.now() + 1000))),
            },
        },
        OwnAct::Accept => cw_ownable::Action::AcceptOwnership,
        OwnAct::Renounce => cw_ownable::Action::RenounceOwnership,
    }
}

fn exec_own(w: &mut World, contract: usize, s: usize, act: &OwnAct, funds: &[Coin]) -> Outcome {
    let a = action(w, act);
    let (snd, c) = (sender_addr(w, s), contract_addr(w, contract));
    match contract {
        0 => w.exec(&snd, &c, &pm::ExecuteMsg::UpdateOwnership(a), funds),
        1 => w.exec(&snd, &c, &fm::ExecuteMsg::UpdateOwnership(a), funds),
        2 => w.exec(&snd, &c, &em::ExecuteMsg::UpdateOwnership(a), funds),
        _ => w.exec(&snd, &c, &mantra_dex_std::fee_collector::ExecuteMsg::UpdateOwnership(a), funds),
    }
}

fn query_ownership(w: &World, contract: usize) -> Option<cw_ownable::Ownership<String>> {
    let c = contract_addr(w, contract);
    match contract {
        0 => w.query(&c, &pm::QueryMsg::Ownership {}).ok(),
        1 => w.query(&c, &fm::QueryMsg::Ownership {}).ok(),
        2 => w.query(&c, &em::QueryMsg::Ownership {}).ok(),
        _ => w.query(&c, &mantra_dex_std::fee_collector::QueryMsg::Ownership {}).ok(),
    }
}

/// privileged message variants of a contract as (label, closure executing it as `sender` with `funds`)
fn privileged(contract: usize) -> Vec<(&'static str, Box<dyn Fn(&mut World, usize, &[Coin]) -> Outcome>)> {
    let mut v: Vec<(&'static str, Box<dyn Fn(&mut World, usize, &[Coin]) -> Outcome>)> = vec![];
    match contract {
        0 => {
            let mk = |f: fn(&World) -> pm::ExecuteMsg| -> Box<dyn Fn(&mut World, usize, &[Coin]) -> Outcome> {
                Box::new(move |w: &mut World, s: usize, funds: &[Coin]| {
                    let (snd, c) = (sender_addr(w, s), w.pool_manager.clone());
                    let m = f(w);
                    w.exec(&snd, &c, &m, funds)
                })
            };
            v.push(("pool.UpdateConfig.fee_collector_addr", mk(|w| pm::ExecuteMsg::UpdateConfig { fee_collector_addr: Some(w.users[2].to_string()), farm_manager_addr: None, pool_creation_fee: None, feature_toggle: None })));
            v.push(("pool.UpdateConfig.farm_manager_addr", mk(|w| pm::ExecuteMsg::UpdateConfig { fee_collector_addr: None, farm_manager_addr: Some(w.users[2].to_string()), pool_creation_fee: None, feature_toggle: None })));
            v.push(("pool.UpdateConfig.pool_creation_fee", mk(|_| pm::ExecuteMsg::UpdateConfig { fee_collector_addr: None, farm_manager_addr: None, pool_creation_fee: Some(coin(5, "uom")), feature_toggle: None })));
            v.push(("pool.UpdateConfig.feature_toggle", mk(|_| pm::ExecuteMsg::UpdateConfig { fee_collector_addr: None, farm_manager_addr: None, pool_creation_fee: None, feature_toggle: Some(pm::FeatureToggle { pool_identifier: "o.a".into(), withdrawals_enabled: Some(false), deposits_enabled: None, swaps_enabled: Some(false) }) })));
            v.push(("pool.UpdateConfig.nothing", mk(|_| pm::ExecuteMsg::UpdateConfig { fee_collector_addr: None, farm_manager_addr: None, pool_creation_fee: None, feature_toggle: None })));
        }
        1 => {
            let base = || fm::ExecuteMsg::UpdateConfig { fee_collector_addr: None, epoch_manager_addr: None, pool_manager_addr: None, create_farm_fee: None, max_concurrent_farms: None, max_farm_epoch_buffer: None, min_unlocking_duration: None, max_unlocking_duration: None, farm_expiration_time: None, emergency_unlock_penalty: None };
            let mk = |f: fn(&World, fm::ExecuteMsg) -> fm::ExecuteMsg| -> Box<dyn Fn(&mut World, usize, &[Coin]) -> Outcome> {
                Box::new(move |w: &mut World, s: usize, funds: &[Coin]| {
                    let (snd, c) = (sender_addr(w, s), w.farm_manager.clone());
                    let m = f(w, fm::ExecuteMsg::UpdateConfig { fee_collector_addr: None, epoch_manager_addr: None, pool_manager_addr: None, create_farm_fee: None, max_concurrent_farms: None, max_farm_epoch_buffer: None, min_unlocking_duration: None, max_unlocking_duration: None, farm_expiration_time: None, emergency_unlock_penalty: None });
                    w.exec(&snd, &c, &m, funds)
                })
            };
            let _ = base;
            macro_rules! field {
                ($label:expr, $field:ident, $val:expr) => {
                    v.push(($label, mk(|w, m| {
                        let _ = w;
                        if let fm::ExecuteMsg::UpdateConfig { fee_collector_addr, epoch_manager_addr, pool_manager_addr, create_farm_fee, max_concurrent_farms, max_farm_epoch_buffer, min_unlocking_duration, max_unlocking_duration, farm_expiration_time, emergency_unlock_penalty } = m {
                            let mut x = (fee_collector_addr, epoch_manager_addr, pool_manager_addr, create_farm_fee, max_concurrent_farms, max_farm_epoch_buffer, min_unlocking_duration, max_unlocking_duration, farm_expiration_time, emergency_unlock_penalty);
                            let f: fn(&World, &mut (Option<String>, Option<String>, Option<String>, Option<Coin>, Option<u32>, Option<u32>, Option<u64>, Option<u64>, Option<u64>, Option<Decimal>)) = $val;
                            f(w, &mut x);
                            fm::ExecuteMsg::UpdateConfig { fee_collector_addr: x.0, epoch_manager_addr: x.1, pool_manager_addr: x.2, create_farm_fee: x.3, max_concurrent_farms: x.4, max_farm_epoch_buffer: x.5, min_unlocking_duration: x.6, max_unlocking_duration: x.7, farm_expiration_time: x.8, emergency_unlock_penalty: x.9 }
                        } else {
                            unreachable!()
                        }
                    })));
                    let _ = stringify!($field);
                };
            }
            field!("farm.UpdateConfig.fee_collector_addr", a, |w, x| x.0 = Some(w.users[2].to_string()));
            field!("farm.UpdateConfig.epoch_manager_addr", a, |w, x| x.1 = Some(w.users[2].to_string()));
            field!("farm.UpdateConfig.pool_manager_addr", a, |w, x| x.2 = Some(w.users[2].to_string()));
            field!("farm.UpdateConfig.create_farm_fee", a, |_, x| x.3 = Some(coin(0, "uom")));
            field!("farm.UpdateConfig.max_concurrent_farms", a, |_, x| x.4 = Some(9));
            field!("farm.UpdateConfig.max_farm_epoch_buffer", a, |_, x| x.5 = Some(99));
            field!("farm.UpdateConfig.min_unlocking_duration", a, |_, x| x.6 = Some(90_000));
            field!("farm.UpdateConfig.max_unlocking_duration", a, |_, x| x.7 = Some(31_000_000));
            field!("farm.UpdateConfig.farm_expiration_time", a, |_, x| x.8 = Some(3_000_000));
            field!("farm.UpdateConfig.emergency_unlock_penalty", a, |_, x| x.9 = Some(Decimal::percent(100)));
            field!("farm.UpdateConfig.nothing", a, |_, _| {});
        }
        2 => {
            v.push((
                "epoch.UpdateConfig.epoch_config",
                Box::new(|w: &mut World, s: usize, funds: &[Coin]| {
                    let (snd, c) = (sender_addr(w, s), w.epoch_manager.clone());
                    let g = w.now() + 5;
                    w.exec(&snd, &c, &em::ExecuteMsg::UpdateConfig { epoch_config: Some(em::EpochConfig { duration: Uint64::new(100_000), genesis_epoch: Uint64::new(g) }) }, funds)
                }),
            ));
            v.push((
                "epoch.UpdateConfig.nothing",
                Box::new(|w: &mut World, s: usize, funds: &[Coin]| {
                    let (snd, c) = (sender_addr(w, s), w.epoch_manager.clone());
                    w.exec(&snd, &c, &em::ExecuteMsg::UpdateConfig { epoch_config: None }, funds)
                }),
            ));
        }
        _ => {}
    }
    v
}

impl Checker for OwnChecker {
    type Op = OwnOp;
    type Ghost = OwnGhost;
    type Pre = ();
    fn name(&self) -> String {
        format!("c15-ownership-{}", ["pool-manager", "farm-manager", "epoch-manager", "fee-collector"][self.contract])
    }
    fn cfg(&self) -> WorldCfg {
        fu::cfg_with_fee(&("uom".into(), 1000))
    }
    fn seeds(&self) -> Vec<(String, Vec<OwnOp>)> {
        vec![("base".into(), vec![OwnOp::Setup])]
    }
    fn pre(&self, _w: &mut World, _g: &OwnGhost) {}
    fn enabled(&self, _w: &mut World, _g: &OwnGhost, _pre: &()) -> Vec<OwnOp> {
        let mut ops = vec![OwnOp::Advance];
        for u in 0..3 {
            for act in [OwnAct::Transfer { to: 1, expiry: 0 }, OwnAct::Transfer { to: 1, expiry: 1 }, OwnAct::Transfer { to: 1, expiry: 2 }, OwnAct::Transfer { to: 2, expiry: 0 }, OwnAct::Accept, OwnAct::Renounce] {
                ops.push(OwnOp::Own { u, act: act.clone(), funds: false });
            }
            ops.push(OwnOp::Own { u, act: OwnAct::Accept, funds: true });
            ops.push(OwnOp::Own { u, act: OwnAct::Transfer { to: 1, expiry: 0 }, funds: true });
        }
        ops
    }
    fn apply(&self, w: &mut World, op: &OwnOp) -> bool {
        self.exec(w, op).is_ok()
    }
    fn step(&self, w: &mut World, g: &OwnGhost, _pre: &(), op: &OwnOp, rec: &mut Rec) -> Option<OwnGhost> {
        match op {
            OwnOp::Setup => {
                if !self.exec(w, op).is_ok() {
                    return None;
                }
                Some(OwnGhost { owner: Some(0), pending: None })
            }
            OwnOp::Advance => {
                w.advance(2000);
                Some(g.clone())
            }
            OwnOp::Own { u, act, funds } => {
                let now = w.now();
                // reference model of the ownership state machine
                let (should, g2) = if *funds {
                    (false, g.clone())
                } else {
                    match act {
                        OwnAct::Transfer { to, expiry } => {
                            if g.owner == Some(*u) {
                                let e = match expiry {
                                    0 => None,
                                    1 => Some(now),
                                    _ => Some(now + 1000),
                                };
                                (true, OwnGhost { owner: g.owner, pending: Some((*to, e)) })
                            } else {
                                (false, g.clone())
                            }
                        }
                        OwnAct::Accept => match g.pending {
                            Some((p, e)) if p == *u && g.owner.is_some() && e.map_or(true, |t| now < t) => (true, OwnGhost { owner: Some(*u), pending: None }),
                            _ => (false, g.clone()),
                        },
                        OwnAct::Renounce => {
                            if g.owner == Some(*u) {
                                (true, OwnGhost { owner: None, pending: None })
                            } else {
                                (false, g.clone())
                            }
                        }
                    }
                };
                let s0 = w.snapshot();
                let out = self.exec(w, op);
                rec.validated += 1;
                if out.is_ok() != should {
                    rec.viol("C15_ownership_transition", format!("{}: {:?} in model state {:?} at {now}: accepted={} expected={should} {}", self.name(), op, g, out.is_ok(), out.err_text()));
                }
                if !out.is_ok() && w.app.storage().data != s0.storage.data {
                    rec.viol("C15_rejected_ownership_action_changed_state", format!("{:?}", op));
                }
                // the Ownership query agrees with the model
                let model = if out.is_ok() { &g2 } else { g };
                match query_ownership(w, self.contract) {
                    Some(o) => {
                        let want_owner = model.owner.map(|x| w.users[x].to_string());
                        let want_pending = model.pending.map(|x| w.users[x.0].to_string());
                        if o.owner != want_owner || o.pending_owner != want_pending {
                            rec.viol("C15_ownership_state", format!("{}: after {:?}: contract says owner {:?} pending {:?}, model owner {:?} pending {:?}", self.name(), op, o.owner, o.pending_owner, want_owner, want_pending));
                        }
                    }
                    None => rec.viol("C15_ownership_query_failed", self.name()),
                }
                if out.is_ok() {
                    Some(g2)
                } else {
                    None
                }
            }
        }
    }
    fn on_new_state(&self, w: &mut World, g: &OwnGhost, rec: &mut Rec) {
        // the complete matrix in this ownership state
        let snap = w.snapshot();
        let uom = [coin(1, "uom")];
        for (label, run) in privileged(self.contract) {
            for s in 0..7usize {
                for with_funds in [false, true] {
                    w.restore(&snap);
                    let funds: &[Coin] = if with_funds { &uom } else { &[] };
                    let out = run(w, s, funds);
                    rec.count("c15_matrix_cells");
                    rec.validated += 1;
                    let entitled = s < N_USERS && g.owner == Some(s);
                    let should = entitled && !with_funds;
                    if out.is_ok() != should {
                        rec.viol("C15_privileged_message", format!("{label} by sender #{s} (owner in the model: {:?}) funds={with_funds}: accepted={} expected={should} {}", g.owner, out.is_ok(), out.err_text()));
                    }
                    if out.is_ok() {
                        // ownership moves only through propose / accept / renounce: a configuration message leaves it alone
                        match query_ownership(w, self.contract) {
                            Some(o) => {
                                let want_owner = g.owner.map(|x| w.users[x].to_string());
                                let want_pending = g.pending.map(|x| w.users[x.0].to_string());
                                if o.owner != want_owner || o.pending_owner != want_pending {
                                    rec.viol("C15_ownership_changed_by_config_message", format!("{label} by #{s}: ownership is now owner {:?} pending {:?}, the model says owner {:?} pending {:?}", o.owner, o.pending_owner, want_owner, want_pending));
                                }
                            }
                            None => rec.viol("C15_ownership_query_failed", self.name()),
                        }
                    }
                    if !out.is_ok() && w.app.storage().data != snap.storage.data {
                        rec.viol("C15_rejected_privileged_message_changed_state", format!("{label} by #{s}"));
                    }
                }
            }
        }
        if self.contract == 1 {
            // farm / position delegation rules in this ownership state: farm m-x and position u-x belong to user 3 (C)
            let lp = w.lp("o.a");
            let cases: Vec<(&str, FuOp, Box<dyn Fn(usize) -> bool>)> = vec![
                ("farm.Close", FuOp::CloseFarm { u: 0, id: "m-x".into() }, Box::new(move |s| s == C)),
                ("farm.Expand", FuOp::ExpandFarm { u: 0, id: "m-x".into(), lp: 0, reward: ("uusdc".into(), 1000), funds: vec![("uusdc".into(), 1000)] }, Box::new(|s| s == C)),
                ("position.Expand", FuOp::ExpandPos { u: 0, id: "u-x".into(), lp: 0, amount: 5 }, Box::new(|s| s == C || s == 4)),
                ("position.Close", FuOp::ClosePos { u: 0, id: "u-x".into(), partial: None }, Box::new(|s| s == C)),
                ("position.Withdraw(emergency)", FuOp::WithdrawPos { u: 0, id: "u-x".into(), emergency: Some(true) }, Box::new(|s| s == C)),
                ("position.CreateFor(C)", FuOp::CreatePos { u: 0, lp: 0, amount: 5, dur: DAY, id: None, recv: Some(C) }, Box::new(|s| s == C || s == 4)),
                // the delegate's own entry points: a locked deposit into C's position through the pool manager is C's alone
                ("pool.ProvideLiquidity(lock into u-x)", FuOp::ProvideLock { u: 0, lp: 0, amount: 5000, dur: DAY, lock_id: Some("u-x".into()) }, Box::new(|s| s == C)),
                // ... nor under the name its owner typed (the farm manager stores it as u-x): that is a create with a taken name
                ("pool.ProvideLiquidity(lock into x)", FuOp::ProvideLock { u: 0, lp: 0, amount: 5000, dur: DAY, lock_id: Some("x".into()) }, Box::new(|_| false)),
                ("pool.ProvideLiquidity(single asset, lock into x)", FuOp::ProvideLockSingle { u: 0, lp: 0, amount: 10_001, dur: DAY, lock_id: Some("x".into()) }, Box::new(|_| false)),
                ("position.Close(x)", FuOp::ClosePos { u: 0, id: "x".into(), partial: None }, Box::new(|_| false)),
                ("position.Withdraw(x, emergency)", FuOp::WithdrawPos { u: 0, id: "x".into(), emergency: Some(true) }, Box::new(|_| false)),
                ("pool.ProvideLiquidity(single asset, lock into u-x)", FuOp::ProvideLockSingle { u: 0, lp: 0, amount: 10_001, dur: DAY, lock_id: Some("u-x".into()) }, Box::new(|s| s == C)),
            ];
            for (label, op, entitled) in cases {
                for s in 0..6usize {
                    w.restore(&snap);
                    // senders 4/5 are the contracts themselves: give them the LP they need to attach
                    let snd = sender_addr(w, s);
                    if s >= 4 {
                        let a = w.users[A].clone();
                        let _ = w.bank_send(&a, &snd, &[coin(100, &lp), coin(5000, "uusdc")]);
                    }
                    let pre = w.snapshot();
                    let op2 = with_sender(&op, s);
                    let out = fu::apply(w, &op2);
                    rec.count("c15_matrix_cells");
                    let owner_may_close_farm = label == "farm.Close" && s < N_USERS && g.owner == Some(s);
                    let should = entitled(s) || owner_may_close_farm;
                    if out.is_ok() != should {
                        rec.viol("C15_delegation", format!("{label} by sender #{s} (contract owner in the model {:?}): accepted={} expected={should} {}", g.owner, out.is_ok(), out.err_text()));
                    }
                    if !out.is_ok() && w.app.storage().data != pre.storage.data {
                        rec.viol("C15_rejected_delegated_message_changed_state", format!("{label} by #{s}"));
                    }
                }
            }
        }
        w.restore(&snap);
    }
}

fn with_sender(op: &FuOp, s: usize) -> FuOp {
    let mut o = op.clone();
    match &mut o {
        FuOp::CloseFarm { u, .. } | FuOp::ExpandFarm { u, .. } | FuOp::ProvideLock { u, .. } | FuOp::ProvideLockSingle { u, .. } | FuOp::ExpandPos { u, .. } | FuOp::ClosePos { u, .. } | FuOp::WithdrawPos { u, .. } | FuOp::CreatePos { u, .. } => *u = s,
        _ => {}
    }
    o
}

impl OwnChecker {
    fn exec(&self, w: &mut World, op: &OwnOp) -> Outcome {
        match op {
            OwnOp::Setup => {
                let o = fu::apply(w, &FuOp::Base);
                if !o.is_ok() {
                    return o;
                }
                let fee = ("uom".to_string(), 1000u128);
                let o = fu::apply(w, &fu::farm_op(&fee, C, 0, Some(1), Some(9), ("uusdc", 8000), Some("x")));
                if !o.is_ok() {
                    return o;
                }
                fu::apply(w, &FuOp::CreatePos { u: C, lp: 0, amount: 1000, dur: DAY, id: Some("x".into()), recv: None })
            }
            OwnOp::Advance => {
                w.advance(2000);
                Outcome::Ok(Default::default())
            }
            OwnOp::Own { u, act, funds } => {
                let f = if *funds { vec![coin(1, "uom")] } else { vec![] };
                exec_own(w, self.contract, *u, act, &f)
            }
        }
    }
}

pub fn jobs(tier: Tier) -> Vec<Job> {
    let _ = (B, OWNER);
    (0..4).map(|c| explore_job(OwnChecker { contract: c }, tier.pick(4, 6), Caps::default())).collect()
}
