//! C16 — pool creation charges exact fees; parameters unique and immutable.
//! (b) immutability / uniqueness as a state oracle on every PU edge; (a) creation grid in c16 grid job.
use crate::engine::*;
use crate::pu::*;
use crate::report::*;
use crate::world::*;
use serde::{Deserialize, Serialize};

pub fn oracle_immutable(c: &PuCtx, rec: &mut Rec) {
    rec.validated += 1;
    // pool set only grows; immutable fields never change
    for p in &c.pre.pools {
        let id = &p.pool_info.pool_identifier;
        match c.post.pool(id) {
            None => rec.viol("C16_pool_removed", id.clone()),
            Some(q) => {
                if descriptor(&q.pool_info) != descriptor(&p.pool_info) {
                    rec.viol("C16_pool_mutated", format!("{} -> {}", descriptor(&p.pool_info), descriptor(&q.pool_info)));
                }
            }
        }
    }
    for p in &c.post.pools {
        if let Some(d) = c.g0.desc.get(&p.pool_info.pool_identifier) {
            if d != &descriptor(&p.pool_info) {
                rec.viol("C16_pool_differs_from_creation", format!("{} vs at creation {}", descriptor(&p.pool_info), d));
            }
        }
    }
    let mut ids = std::collections::BTreeSet::new();
    let mut lps = std::collections::BTreeSet::new();
    for p in &c.post.pools {
        if !ids.insert(p.pool_info.pool_identifier.clone()) || !lps.insert(p.pool_info.lp_denom.clone()) {
            rec.viol("C16_duplicate_identifier_or_lp", p.pool_info.pool_identifier.clone());
        }
    }
    if c.post.pools.len() > c.pre.pools.len() {
        // a pool appeared: only through an accepted CreatePool, all features enabled, empty reserves
        if !(matches!(c.op, PuOp::CreatePool { .. }) && c.out.is_ok()) {
            rec.viol("C16_pool_appeared", format!("{:?}", c.op));
        }
        for p in &c.post.pools {
            if c.pre.pool(&p.pool_info.pool_identifier).is_none() {
                let st = &p.pool_info.status;
                if !(st.swaps_enabled && st.deposits_enabled && st.withdrawals_enabled) || p.pool_info.assets.iter().any(|a| !a.amount.is_zero()) {
                    rec.viol("C16_new_pool_state", format!("{:?}", p.pool_info));
                }
            }
        }
    }
    if let PuOp::CreatePool { .. } = c.op {
        oracle_creation(c, rec);
    }
}

/// Acceptance and fee accounting of one CreatePool message, judged from the statement alone.
pub fn oracle_creation(c: &PuCtx, rec: &mut Rec) {
    let PuOp::CreatePool { u, denoms, decimals, fees, amp, id, funds } = c.op else { return };
    let cfgp = c.pre.cfg.as_ref().unwrap();
    let pf = &cfgp.pool_creation_fee;
    // required funds: pool creation fee + token factory fee (8888 uom in every PU configuration)
    let mut need: std::collections::BTreeMap<String, u128> = std::collections::BTreeMap::new();
    if !pf.amount.is_zero() {
        *need.entry(pf.denom.clone()).or_default() += pf.amount.u128();
    }
    for t in &c.w.tf_fee {
        *need.entry(t.denom.clone()).or_default() += t.amount.u128();
    }
    let mut have: std::collections::BTreeMap<String, u128> = std::collections::BTreeMap::new();
    for (d, a) in funds {
        *have.entry(d.clone()).or_default() += a;
    }
    let funds_exact = have == need;
    let n = denoms.len();
    let distinct = denoms.iter().collect::<std::collections::BTreeSet<_>>().len() == n;
    let shape_ok = match amp {
        None => n == 2,
        Some(a) => *a > 0 && (2..=4).contains(&n),
    } && distinct
        && decimals.len() == n;
    let each = fees.p < 10_000 && fees.s < 10_000 && fees.b < 10_000 && fees.x.iter().all(|x| *x < 10_000);
    let total: u64 = fees.p + fees.s + fees.b + fees.x.iter().sum::<u64>();
    let fees_ok = each && total <= 2_000;
    let full_id = match id {
        Some(i) => format!("o.{i}"),
        None => String::new(),
    };
    let id_ok = match id {
        None => true,
        Some(_) => {
            // well-formed: alphanumeric plus . and /, LP subdenom "<id>.LP" within the token-factory limit of 44
            full_id.chars().all(|ch| ch.is_ascii_alphanumeric() || ch == '.' || ch == '/') && full_id.len() + 3 <= 44 && c.pre.pool(&full_id).is_none()
        }
    };
    let should = funds_exact && shape_ok && fees_ok && id_ok;
    rec.count(if should { "c16_must_accept" } else { "c16_must_reject" });
    if c.out.is_ok() != should {
        rec.viol(
            "C16_creation_acceptance",
            format!("accepted={} expected={should} (funds_exact={funds_exact} shape_ok={shape_ok} fees_ok={fees_ok} id_ok={id_ok}) op={:?} err={}", c.out.is_ok(), c.op, c.out.err_text()),
        );
    }
    if c.out.is_ok() {
        // creator pays exactly the fees; fee collector gets the creation fee; pool manager keeps nothing
        let mut denoms_all: std::collections::BTreeSet<String> = need.keys().cloned().collect();
        denoms_all.extend(have.keys().cloned());
        for d in &denoms_all {
            let paid = -c.delta(*u, d);
            if paid != *need.get(d).unwrap_or(&0) as i128 {
                rec.viol("C16_creator_charged", format!("{d}: creator paid {paid}, fees are {:?}", need));
            }
            if c.delta(PM, d) != 0 {
                rec.viol("C16_pool_manager_kept_funds", format!("{d}: pool manager delta {}", c.delta(PM, d)));
            }
            let fc_want = if *d == pf.denom { pf.amount.u128() as i128 } else { 0 };
            if c.delta(FC, d) != fc_want {
                rec.viol("C16_fee_collector", format!("{d}: fee collector delta {} expected {fc_want}", c.delta(FC, d)));
            }
        }
        // the new pool carries exactly the requested parameters
        let newp = c.post.pools.iter().find(|p| c.pre.pool(&p.pool_info.pool_identifier).is_none());
        match newp {
            None => rec.viol("C16_created_pool_missing", format!("{:?}", c.op)),
            Some(p) => {
                let pi = &p.pool_info;
                let want_type = match amp {
                    Some(a) => mantra_dex_std::pool_manager::PoolType::StableSwap { amp: *a },
                    None => mantra_dex_std::pool_manager::PoolType::ConstantProduct,
                };
                if &pi.asset_denoms != denoms || &pi.asset_decimals != decimals || pi.pool_type != want_type || pi.pool_fees != fees.to_pool_fee() || (id.is_some() && pi.pool_identifier != full_id) || (id.is_none() && !pi.pool_identifier.starts_with("p.")) {
                    rec.viol("C16_created_pool_params", format!("{:?} for {:?}", pi, c.op));
                }
            }
        }
    } else if !c.storage_unchanged {
        rec.viol("C16_rejected_creation_changed_state", format!("{:?}", c.op));
    }
}

#[derive(Clone, Debug, Serialize, Deserialize)]
pub struct CreateCase {
    pub fee_cfg: u8, // 0: creation uusd + tf uom; 1: both uom; 2: tf = two coins; 3, 4: zero creation fee; 5, 6: tf = two coins, creation fee in its first / last denom
    pub pre_ids: Vec<String>,
    /// the pool manager already holds unsolicited tokens of every fee denom (so that an under-paid token-factory fee
    /// could be taken from the contract's own balance)
    #[serde(default)]
    pub pm_holds_fee_denoms: bool,
    pub op: PuOp,
}

fn cfg_for(k: u8) -> WorldCfg {
    use cosmwasm_std::coin;
    let mut c = cfg();
    match k {
        0 => {}
        1 => c.pool_fee = coin(1000, "uom"),
        2 => c.tf_fee = vec![coin(8888, "uom"), coin(777, "uusdc")],
        3 => c.pool_fee = coin(0, "uusd"), // no creation fee, denom differs from the token-factory fee
        4 => c.pool_fee = coin(0, "uom"),  // no creation fee, same denom as the token-factory fee
        5 => {
            // token-factory fee of two coins, the creation fee in the denom of the first one
            c.tf_fee = vec![coin(8888, "uom"), coin(500, "uusd")];
            c.pool_fee = coin(2000, "uom");
        }
        _ => {
            // ... and in the denom of the last one
            c.tf_fee = vec![coin(8888, "uom"), coin(500, "uusd")];
            c.pool_fee = coin(1000, "uusd");
        }
    }
    c
}

fn eval_case(w: &mut World, case: &CreateCase, rec: &mut Rec) -> bool {
    let cfgw = cfg_for(case.fee_cfg);
    w.tf_fee = cfgw.tf_fee.clone();
    restore_base(w, &format!("c16-{}", case.fee_cfg), &cfgw, |_| {});
    w.tf_fee = cfgw.tf_fee.clone();
    let need: Vec<(String, u128)> = {
        let mut m: std::collections::BTreeMap<String, u128> = std::collections::BTreeMap::new();
        if !cfgw.pool_fee.amount.is_zero() {
            *m.entry(cfgw.pool_fee.denom.clone()).or_default() += cfgw.pool_fee.amount.u128();
        }
        for t in &cfgw.tf_fee {
            *m.entry(t.denom.clone()).or_default() += t.amount.u128();
        }
        m.into_iter().collect()
    };
    if case.pm_holds_fee_denoms {
        for (d, _) in &need {
            let o = apply(w, &PuOp::Donate { u: B, denom: d.clone(), amt: 50_000 });
            if !o.is_ok() {
                rec.count("c16_setup_refused");
                return false;
            }
        }
    }
    for id in &case.pre_ids {
        let o = apply(w, &PuOp::CreatePool { u: OWNER, denoms: vec!["uom".into(), "uusd".into()], decimals: vec![6, 6], fees: std_fees(), amp: None, id: Some(id.clone()), funds: need.clone() });
        if !o.is_ok() {
            rec.count("c16_setup_refused");
            return false;
        }
    }
    let chk = PuChecker { name: "c16case".into(), seeds: vec![], alpha: Alpha::Core, oracles: vec![oracle_immutable] };
    let pre = observe(w);
    let g = PuGhost::default();
    let r = chk.step(w, &g, &pre, &case.op, rec);
    rec.outcome("CreatePool", if r.is_some() { "ok" } else { "refused" });
    true
}

pub fn creation_cases(tier: Tier) -> Vec<CreateCase> {
    let mut v = vec![];
    let s = |x: &[&str]| x.iter().map(|y| y.to_string()).collect::<Vec<String>>();
    for k in 0u8..7 {
        let cfgw = cfg_for(k);
        let mut need: std::collections::BTreeMap<String, u128> = std::collections::BTreeMap::new();
        if !cfgw.pool_fee.amount.is_zero() {
            *need.entry(cfgw.pool_fee.denom.clone()).or_default() += cfgw.pool_fee.amount.u128();
        }
        for t in &cfgw.tf_fee {
            *need.entry(t.denom.clone()).or_default() += t.amount.u128();
        }
        let exact: Vec<(String, u128)> = need.clone().into_iter().collect();
        // fund combinations on a valid pool
        let mut fund_sets: Vec<Vec<(String, u128)>> = vec![exact.clone()];
        for i in 0..exact.len() {
            let mut f = exact.clone();
            f[i].1 += 1;
            fund_sets.push(f);
            let mut f = exact.clone();
            f[i].1 -= 1;
            fund_sets.push(f);
            let mut f = exact.clone();
            f.remove(i);
            if !f.is_empty() {
                fund_sets.push(f);
            }
        }
        let mut f = exact.clone();
        f.push(("uweth".into(), 5));
        fund_sets.push(f);
        let mut f = exact.clone();
        f.push(("uusdc".into(), 12_345));
        if !need.contains_key("uusdc") {
            fund_sets.push(f);
        }
        let mut f = exact.clone();
        f.push(("uusd".into(), 1));
        if !need.contains_key("uusd") {
            fund_sets.push(f);
        }
        fund_sets.push(vec![("uweth".into(), 10_000)]);
        fund_sets.push(vec![]);
        for f in &fund_sets {
            for amp in [None, Some(100u64)] {
                v.push(CreateCase { fee_cfg: k, pre_ids: vec![], pm_holds_fee_denoms: false, op: PuOp::CreatePool { u: A, denoms: s(&["uusd", "uusdc"]), decimals: vec![6, 6], fees: std_fees(), amp, id: Some("x".into()), funds: f.clone() } });
            }
            v.push(CreateCase { fee_cfg: k, pre_ids: vec![], pm_holds_fee_denoms: true, op: PuOp::CreatePool { u: A, denoms: s(&["uusd", "uusdc"]), decimals: vec![6, 6], fees: std_fees(), amp: None, id: Some("x".into()), funds: f.clone() } });
        }
        if k != 0 && tier == Tier::Quick {
            continue;
        }
        // asset lists / decimals / types
        let lists: Vec<Vec<String>> = vec![s(&["uusd"]), s(&["uusd", "uusdc"]), s(&["uusd", "uusd"]), s(&["uusd", "uusdc", "uom"]), s(&["uusd", "uusdc", "uusd"]), s(&["uusd", "uusdc", "uom", "uweth"]), s(&["uusd", "uusdc", "uom", "uweth", "ausdy"]), vec![]];
        for l in &lists {
            for amp in [None, Some(0u64), Some(1), Some(100)] {
                for dl in [l.len(), l.len() + 1, l.len().saturating_sub(1)] {
                    let decimals: Vec<u8> = (0..dl).map(|i| if i % 2 == 0 { 6 } else { 18 }).collect();
                    v.push(CreateCase { fee_cfg: k, pre_ids: vec![], pm_holds_fee_denoms: false, op: PuOp::CreatePool { u: A, denoms: l.clone(), decimals, fees: std_fees(), amp, id: None, funds: exact.clone() } });
                }
            }
        }
        // fee sets
        let feesets = vec![
            zero_fees(),
            std_fees(),
            FeeSpec { p: 10_000, s: 0, b: 0, x: vec![] },
            FeeSpec { p: 0, s: 9_999, b: 0, x: vec![] },
            FeeSpec { p: 500, s: 500, b: 500, x: vec![250, 250] },
            FeeSpec { p: 500, s: 500, b: 500, x: vec![250, 251] },
            FeeSpec { p: 0, s: 2_000, b: 0, x: vec![] },
            FeeSpec { p: 0, s: 2_001, b: 0, x: vec![] },
            FeeSpec { p: 0, s: 0, b: 0, x: vec![10_000] },
            FeeSpec { p: 700, s: 700, b: 700, x: vec![] },
        ];
        for f in feesets {
            for amp in [None, Some(10u64)] {
                v.push(CreateCase { fee_cfg: k, pre_ids: vec![], pm_holds_fee_denoms: false, op: PuOp::CreatePool { u: A, denoms: s(&["uusd", "uusdc"]), decimals: vec![6, 6], fees: f.clone(), amp, id: None, funds: exact.clone() } });
            }
        }
        // identifiers
        let mut ids: Vec<Option<String>> = vec![None, Some("a".into()), Some("a/b.c".into()), Some("a-b".into()), Some("a b".into()), Some("".into()), Some("ä".into()), Some("1".into()), Some("p.1".into())];
        for len in [38usize, 39, 40, 41, 42, 60] {
            ids.push(Some("z".repeat(len)));
        }
        for id in ids {
            v.push(CreateCase { fee_cfg: k, pre_ids: vec![], pm_holds_fee_denoms: false, op: PuOp::CreatePool { u: A, denoms: s(&["uusd", "uusdc"]), decimals: vec![6, 6], fees: std_fees(), amp: None, id: id.clone(), funds: exact.clone() } });
            // an identifier with upper-case letters created a second time with exactly the same spelling
            if k == 0 {
                v.push(CreateCase { fee_cfg: k, pre_ids: vec!["Whale.Luna".into()], pm_holds_fee_denoms: false, op: PuOp::CreatePool { u: A, denoms: s(&["uusd", "uusdc"]), decimals: vec![6, 6], fees: std_fees(), amp: Some(100), id: Some("Whale.Luna".into()), funds: exact.clone() } });
            }
            v.push(CreateCase { fee_cfg: k, pre_ids: vec!["a".into(), "1".into()], pm_holds_fee_denoms: false, op: PuOp::CreatePool { u: A, denoms: s(&["uusd", "uusdc"]), decimals: vec![6, 6], fees: std_fees(), amp: None, id, funds: exact.clone() } });
        }
    }
    v
}

pub fn jobs(tier: Tier) -> Vec<Job> {
    let full = PuChecker { name: "c16-pu-full".into(), seeds: vec!["S0", "S1", "S2", "S4", "S8"], alpha: Alpha::Full, oracles: vec![oracle_immutable] };
    vec![
        explore_job(full, tier.pick(2, 3), Caps::default()),
        grid_job(
            "c16-creation-grid",
            "CreatePool over asset lists (0-5 denoms incl. duplicates) x decimals length {n, n+1, n-1} x types {CP, SS amp 0/1/100} x fee sets (each <100%, total 20% / 20%+1bp) x identifiers (none, valid, 38-60 chars, illegal chars, duplicate, '1' vs generated 'p.1') x fund combinations {exact, +-1 each coin, missing coin, extra denom, none} under seven fee configurations (incl. a zero creation fee and a two-coin token-factory fee with the creation fee in its first / last denom), each fund combination also with the pool manager already holding tokens of every fee denom; non-trivial = setup accepted",
            cfg,
            creation_cases(tier),
            eval_case,
        ),
    ]
}
