//! C17 — per-pool feature switches stop exactly the switched operation on every path. Twin-run oracle: the
//! same operation on a twin of the state with everything re-enabled.
use crate::engine::*;
use crate::pu::*;
use crate::report::*;
use crate::world::*;
use mantra_dex_std::pool_manager as pm;

fn status_of<'a>(o: &'a PuObs, id: &str) -> Option<&'a pm::PoolStatus> {
    o.pool(id).map(|p| &p.pool_info.status)
}

/// which (pool, feature) pairs an operation needs: feature 0 = swaps, 1 = deposits, 2 = withdrawals
fn needs(op: &PuOp) -> Vec<(String, usize)> {
    match op {
        PuOp::Swap { pool, .. } => vec![(pool.clone(), 0)],
        PuOp::Route { hops, .. } => hops.iter().map(|h| (h.2.clone(), 0)).collect(),
        PuOp::Provide { pool, funds, .. } => {
            let mut v = vec![(pool.clone(), 1)];
            if funds.len() == 1 {
                v.push((pool.clone(), 0));
            }
            v
        }
        PuOp::Withdraw { pool, .. } => vec![(pool.clone(), 2)],
        _ => vec![],
    }
}

fn strip_status(o: &PuObs) -> Vec<(pm::PoolInfo, cosmwasm_std::Coin)> {
    o.pools.iter().map(|p| { let mut i = p.pool_info.clone(); i.status = pm::PoolStatus::default(); (i, p.total_share.clone()) }).collect()
}

pub fn oracle(c: &PuCtx, rec: &mut Rec) {
    let (top, fee): (Option<(&usize, &String, &Option<bool>, &Option<bool>, &Option<bool>)>, Option<u128>) = match c.op {
        PuOp::Toggle { u, pool, w, d, s } => (Some((u, pool, w, d, s)), None),
        PuOp::ToggleAndFee { u, pool, w, d, s, amt } => (Some((u, pool, w, d, s)), Some(*amt)),
        _ => (None, None),
    };
    if let Some((u, pool, w, d, s)) = top {
        toggle_effect(c, rec, *u, pool, w, d, s, fee);
        return;
    }
    // nothing but a feature toggle changes a switch
    for p in &c.pre.pools {
        if let Some(q) = c.post.pool(&p.pool_info.pool_identifier) {
            if q.pool_info.status != p.pool_info.status {
                rec.viol("C17_switch_changed_without_toggle", format!("{:?}: {:?} -> {:?}", c.op, p.pool_info.status, q.pool_info.status));
            }
        }
    }
    match c.op {
        PuOp::Swap { .. } | PuOp::Route { .. } | PuOp::Provide { .. } | PuOp::Withdraw { .. } => operation_effect(c, rec),
        _ => {}
    }
}

fn toggle_effect(c: &PuCtx, rec: &mut Rec, u: usize, pool: &String, w: &Option<bool>, d: &Option<bool>, s: &Option<bool>, fee: Option<u128>) {
    {
        {
            // only the named pool's named switches change, and only for the owner
            if c.out.is_ok() {
                rec.validated += 1;
                if u != OWNER {
                    rec.viol("C17_non_owner_toggled", format!("{:?}", c.op));
                }
                for p in &c.pre.pools {
                    let id = &p.pool_info.pool_identifier;
                    let mut want = p.clone();
                    if id == pool {
                        if let Some(x) = w { want.pool_info.status.withdrawals_enabled = *x; }
                        if let Some(x) = d { want.pool_info.status.deposits_enabled = *x; }
                        if let Some(x) = s { want.pool_info.status.swaps_enabled = *x; }
                    }
                    if c.post.pool(id) != Some(&want) {
                        rec.viol("C17_toggle_effect", format!("{:?}: {:?} -> {:?}", c.op, p.pool_info.status, c.post.pool(id).map(|x| &x.pool_info.status)));
                    }
                }
                if c.pre.bal != c.post.bal {
                    rec.viol("C17_toggle_moved_funds", format!("{:?}", c.op));
                }
                // the rest of the configuration: unchanged, except a fee carried by the same message
                let mut want_cfg = c.pre.cfg.clone();
                if let (Some(cf), Some(amt)) = (want_cfg.as_mut(), fee) {
                    cf.pool_creation_fee = cosmwasm_std::coin(amt, "uusd");
                }
                if c.post.cfg != want_cfg {
                    rec.viol("C17_toggle_config_effect", format!("{:?}: configuration {:?} -> {:?}", c.op, c.pre.cfg, c.post.cfg));
                }
            } else if !c.storage_unchanged {
                rec.viol("C17_rejected_toggle_changed_state", format!("{:?}", c.op));
            }
        }
    }
}

fn operation_effect(c: &PuCtx, rec: &mut Rec) {
    {
        {
            let blocked: Vec<(String, usize)> = needs(c.op)
                .into_iter()
                .filter(|(p, f)| status_of(c.pre, p).map_or(false, |st| match f { 0 => !st.swaps_enabled, 1 => !st.deposits_enabled, _ => !st.withdrawals_enabled }))
                .collect();
            rec.count("c17_operations_judged");
            if !blocked.is_empty() {
                rec.count("c17_must_block");
                if c.out.is_ok() {
                    rec.viol("C17_disabled_operation_executed", format!("{:?} executed although {:?} (pool, feature 0=swap 1=deposit 2=withdraw) is disabled", c.op, blocked));
                } else if !c.storage_unchanged {
                    rec.viol("C17_blocked_operation_left_trace", format!("{:?}", c.op));
                }
                return;
            }
            // nothing it needs is disabled: it must behave exactly as on the twin with everything enabled
            let any_disabled = c.pre.pools.iter().any(|p| p.pool_info.status != pm::PoolStatus::default());
            if !any_disabled {
                return;
            }
            rec.count("c17_must_equal_twin");
            let cfgw = cfg();
            let op = c.op.clone();
            let pools: Vec<String> = c.pre.pools.iter().map(|p| p.pool_info.pool_identifier.clone()).collect();
            let twin = with_scratch(&cfgw, c.s0, |w2| {
                for id in &pools {
                    let o = apply(w2, &PuOp::Toggle { u: OWNER, pool: id.clone(), w: Some(true), d: Some(true), s: Some(true) });
                    if !o.is_ok() {
                        return None;
                    }
                }
                let before = observe(w2);
                let o = apply(w2, &op);
                Some((o.is_ok(), before, observe(w2)))
            });
            let Some((tok, tb, ta)) = twin else {
                rec.viol("C17_reenable_failed", "owner could not re-enable all features on the twin".into());
                return;
            };
            rec.validated += 1;
            if tok != c.out.is_ok() {
                rec.viol("C17_unrelated_switch_changed_outcome", format!("{:?}: accepted={} with switches {:?}, accepted={tok} with everything enabled ({})", c.op, c.out.is_ok(), c.pre.pools.iter().map(|p| (&p.pool_info.pool_identifier, &p.pool_info.status)).collect::<Vec<_>>(), c.out.err_text()));
                return;
            }
            if tok {
                // same effects: pools (modulo status), balances, supplies, positions
                if strip_status(&ta) != strip_status(c.post) || ta.bal != c.post.bal || ta.supply != c.post.supply || ta.positions != c.post.positions {
                    rec.viol("C17_unrelated_switch_changed_effect", format!("{:?}: effects differ from the twin with everything enabled", c.op));
                }
                let _ = tb;
            }
        }
    }
}

pub fn alphabet(w: &World, pre: &PuObs) -> Vec<PuOp> {
    let mut ops = vec![];
    // switches: every combination in one message, on two pools
    for id in ["o.cp", "o.s2"] {
        if pre.pool(id).is_none() {
            continue;
        }
        for m in 0..8u8 {
            ops.push(PuOp::Toggle { u: OWNER, pool: id.into(), w: Some(m & 1 != 0), d: Some(m & 2 != 0), s: Some(m & 4 != 0) });
        }
        let st = status_of(pre, id).unwrap();
        ops.push(PuOp::Toggle { u: OWNER, pool: id.into(), w: None, d: None, s: Some(!st.swaps_enabled) });
        ops.push(PuOp::Toggle { u: A, pool: id.into(), w: Some(true), d: Some(true), s: Some(true) });
        // a switch travelling together with a configuration value in one message
        let fee_now = pre.cfg.as_ref().map(|c| c.pool_creation_fee.amount.u128()).unwrap_or(1000);
        ops.push(PuOp::ToggleAndFee { u: OWNER, pool: id.into(), w: Some(!st.withdrawals_enabled), d: None, s: Some(!st.swaps_enabled), amt: if fee_now == 1000 { 2000 } else { 1000 } });
    }
    let sw = |u: usize, pool: &str, o: &str, amt: u128, a: &str| PuOp::Swap { u, pool: pool.into(), offer: vec![(o.into(), amt)], ask: a.into(), slip: Some(5000), belief: None, recv: None };
    let r = |hops: &[(&str, &str, &str)], amt: u128| PuOp::Route { u: B, hops: hops.iter().map(|(a, b, c)| (a.to_string(), b.to_string(), c.to_string())).collect(), amt, min: None, recv: None, slip: Some(5000) };
    // every operation path, on the switched pools and on the others
    ops.push(sw(A, "o.cp", "uom", 10_000, "uusd"));
    ops.push(sw(A, "o.s2", "uusdc", 10_000, "ausdy"));
    ops.push(sw(A, "o.ss", "uusd", 10_000, "uusdc"));
    ops.push(sw(A, "o.cp2", "uom", 10_000, "uusdc"));
    ops.push(r(&[("uom", "uusd", "o.cp"), ("uusd", "uusdc", "o.ss")], 20_000)); // 2-hop through o.cp
    ops.push(r(&[("uusdc", "uusd", "o.ss"), ("uusd", "uom", "o.cp")], 20_000)); // 2-hop ending in o.cp
    ops.push(r(&[("uusd", "uusdc", "o.ss"), ("uusdc", "uom", "o.cp2"), ("uom", "uusd", "o.cp")], 20_000)); // 3-hop ending in o.cp
    ops.push(r(&[("uusd", "uusdc", "o.ss"), ("uusdc", "ausdy", "o.s2")], 20_000)); // 2-hop ending in o.s2
    ops.push(r(&[("uusd", "uusdc", "o.ss"), ("uusdc", "uom", "o.cp2")], 20_000)); // route avoiding both switched pools
    for (id, d0, d1) in [("o.cp", "uom", "uusd"), ("o.s2", "uusdc", "ausdy"), ("o.cp2", "uusdc", "uom")] {
        let Some(p) = pre.pool(id) else { continue };
        let a0 = p.pool_info.assets.iter().find(|c| c.denom == d0).unwrap().amount.u128();
        let a1 = p.pool_info.assets.iter().find(|c| c.denom == d1).unwrap().amount.u128();
        let pr = |funds: Vec<(String, u128)>, lock: Option<u64>| PuOp::Provide { u: A, pool: id.into(), funds, lock, lock_id: None, recv: None, liq_slip: None, swap_slip: Some(5000) };
        ops.push(pr(vec![(d0.into(), a0 / 50 + 1), (d1.into(), a1 / 50 + 1)], None));
        ops.push(pr(vec![(d0.into(), a0 / 50 + 1), (d1.into(), a1 / 50 + 1)], Some(DAY)));
        ops.push(pr(vec![(d0.into(), (a0 / 100) | 1)], None));
        ops.push(pr(vec![(d1.into(), (a1 / 100) | 1)], Some(DAY)));
        let la = pre.b(A, &p.pool_info.lp_denom);
        if la > 0 {
            ops.push(PuOp::Withdraw { u: A, pool: id.into(), funds: vec![(p.pool_info.lp_denom.clone(), la / 4 + 1)] });
        }
    }
    let _ = w;
    ops
}

pub fn seed17() -> Vec<PuOp> {
    // S2 plus LP for A in every pool that gets switched
    let mut v = seed_ops("S2");
    v.push(PuOp::Provide { u: A, pool: "o.s2".into(), funds: vec![("uusdc".into(), 1_000_000), ("ausdy".into(), 1_000_000_000_000_000_000)], lock: None, lock_id: None, recv: None, liq_slip: None, swap_slip: None });
    v.push(PuOp::Provide { u: A, pool: "o.cp2".into(), funds: vec![("uusdc".into(), 500_000), ("uom".into(), 500_000)], lock: None, lock_id: None, recv: None, liq_slip: None, swap_slip: None });
    v
}

#[derive(Clone)]
pub struct C17Checker(pub PuChecker);
impl Checker for C17Checker {
    type Op = PuOp;
    type Ghost = PuGhost;
    type Pre = PuObs;
    fn name(&self) -> String { self.0.name.clone() }
    fn cfg(&self) -> WorldCfg { cfg() }
    fn seeds(&self) -> Vec<(String, Vec<PuOp>)> { vec![("S2+lp".into(), seed17())] }
    fn pre(&self, w: &mut World, g: &PuGhost) -> PuObs { self.0.pre(w, g) }
    fn enabled(&self, w: &mut World, g: &PuGhost, pre: &PuObs) -> Vec<PuOp> { self.0.enabled(w, g, pre) }
    fn apply(&self, w: &mut World, op: &PuOp) -> bool { self.0.apply(w, op) }
    fn step(&self, w: &mut World, g: &PuGhost, pre: &PuObs, op: &PuOp, rec: &mut Rec) -> Option<PuGhost> { self.0.step(w, g, pre, op, rec) }
}

pub fn jobs(tier: Tier) -> Vec<Job> {
    let chk = C17Checker(PuChecker { name: "c17-pu-switches".into(), seeds: vec![], alpha: Alpha::Custom(alphabet), oracles: vec![oracle, crate::props::c16::oracle_immutable] });
    let full = PuChecker { name: "c17-pu-full".into(), seeds: vec!["S2"], alpha: Alpha::Full, oracles: vec![oracle] };
    vec![explore_job(chk, tier.pick(3, 4), Caps::default()), explore_job(full, tier.pick(2, 3), Caps::default())]
}
