//! C18 — epochs partition time. Exhaustive grid over (genesis, duration, now, id) through the real
//! instantiate / UpdateConfig / CurrentEpoch / Epoch entry points, plus every step sequence of a small
//! time-advance transition system. DESIGN.md §3/C18.
use crate::engine::*;
use crate::report::*;
use crate::world::*;
use cosmwasm_std::{Addr, Uint64};
use mantra_dex_std::epoch_manager as em;
use serde::{Deserialize, Serialize};

const NS: u128 = 1_000_000_000;
const MAX_NS: u128 = u64::MAX as u128;

#[derive(Serialize, Deserialize, Debug, Clone)]
pub enum P18 {
    /// config instantiated at block time 0; then `now` = genesis + off seconds + sub nanoseconds
    Point { genesis: u64, duration: u64, off: i128, sub_ns: u64, ids: Vec<u64> },
    /// acceptance of instantiate / UpdateConfig at block time `block`
    Accept { block: u64, sub_ns: u64, genesis: u64, duration: u64 },
    /// time-advance transition system: start at genesis+start_off(+sub_ns), then steps (0: +1 s, 1: +d-1, 2: +d)
    Walk { genesis: u64, duration: u64, start_off: u64, sub_ns: u64, steps: Vec<u8> },
}

fn inst(w: &mut World, genesis: u64, duration: u64) -> Outcome {
    let owner = w.users[0].clone();
    let app = &mut w.app;
    let r = trap(|| {
        use cw_multi_test::Executor;
        app.instantiate_contract(
            1,
            owner.clone(),
            &em::InstantiateMsg { owner: owner.to_string(), epoch_config: em::EpochConfig { duration: Uint64::new(duration), genesis_epoch: Uint64::new(genesis) } },
            &[],
            "epoch-x",
            None,
        )
    });
    match r {
        Ok(Ok(a)) => {
            let mut resp = cw_multi_test::AppResponse::default();
            resp.data = Some(a.as_bytes().to_vec().into());
            Outcome::Ok(resp)
        }
        Ok(Err(e)) => Outcome::Rejected(format!("{e:#}")),
        Err(_) => Outcome::Trapped,
    }
}
fn addr_of(o: &Outcome) -> Addr {
    if let Outcome::Ok(r) = o {
        Addr::unchecked(String::from_utf8(r.data.clone().unwrap().to_vec()).unwrap())
    } else {
        panic!("MACHINERY: no address")
    }
}
fn cur(w: &World, a: &Addr) -> Result<em::EpochResponse, String> {
    w.query(a, &em::QueryMsg::CurrentEpoch {})
}
fn ep(w: &World, a: &Addr, id: u64) -> Result<em::EpochResponse, String> {
    w.query(a, &em::QueryMsg::Epoch { id })
}

fn repr(secs: u128) -> bool {
    secs.checked_mul(NS).map_or(false, |x| x <= MAX_NS)
}

/// Oracle for Epoch{id}: start == genesis + id*duration exactly, or a clean failure when the value is
/// not representable as a nanosecond timestamp; never a wrapped value.
fn check_epoch_id(w: &World, a: &Addr, g: u64, d: u64, id: u64, rec: &mut Rec) {
    let exact: u128 = g as u128 + id as u128 * d as u128;
    let r = ep(w, a, id);
    rec.count("epoch_id_queries");
    match r {
        Ok(e) => {
            if !repr(exact) {
                rec.viol("C18_wrapped_start", format!("g={g} d={d} id={id}: exact start {exact}s not representable but query returned {:?}", e.epoch));
            } else if e.epoch.id != id || e.epoch.start_time.nanos() as u128 != exact * NS {
                rec.viol("C18_epoch_start", format!("g={g} d={d} id={id}: start {} != {}s", e.epoch.start_time.nanos(), exact));
            }
            rec.outcome("Epoch", "ok");
        }
        Err(_) => {
            if repr(exact) {
                rec.viol("C18_epoch_refused", format!("g={g} d={d} id={id}: representable start {exact}s refused"));
            }
            rec.outcome("Epoch", "refused");
        }
    }
}

fn check_now(w: &mut World, a: &Addr, g: u64, d: u64, now_ns: u128, rec: &mut Rec) -> Option<u64> {
    w.set_time_nanos(now_ns as u64);
    let now_s = now_ns / NS;
    let r = cur(w, a);
    rec.count("current_epoch_queries");
    if now_s < g as u128 {
        if r.is_ok() {
            rec.viol("C18_before_genesis", format!("g={g} d={d} now={now_ns}ns: CurrentEpoch answered before genesis: {:?}", r));
        }
        rec.outcome("CurrentEpoch", "refused");
        return None;
    }
    let want = (now_s - g as u128) / d as u128;
    let start = g as u128 + want * d as u128;
    match r {
        Ok(e) => {
            rec.outcome("CurrentEpoch", "ok");
            if e.epoch.id as u128 != want {
                rec.viol("C18_current_id", format!("g={g} d={d} now={now_ns}ns: id {} != floor((now-g)/d) = {want}", e.epoch.id));
            }
            if e.epoch.start_time.nanos() as u128 != start * NS {
                rec.viol("C18_current_start", format!("g={g} d={d} now={now_ns}ns: start {} != {}", e.epoch.start_time.nanos(), start * NS));
            }
            // now in [start(cur), start(cur+1))
            let s0 = e.epoch.start_time.nanos() as u128;
            if !(s0 <= now_ns) {
                rec.viol("C18_partition", format!("g={g} d={d} now={now_ns}: start(cur)={s0} > now"));
            }
            if let Ok(n) = ep(w, a, e.epoch.id.wrapping_add(1)) {
                let s1 = n.epoch.start_time.nanos() as u128;
                if !(now_ns < s1) {
                    rec.viol("C18_partition", format!("g={g} d={d} now={now_ns}: start(cur+1)={s1} <= now"));
                }
            }
            Some(e.epoch.id)
        }
        Err(err) => {
            rec.outcome("CurrentEpoch", "refused");
            // after genesis the current epoch is defined; its start is <= now so it is representable
            rec.viol("C18_current_refused", format!("g={g} d={d} now={now_ns}ns: CurrentEpoch failed after genesis: {err}"));
            None
        }
    }
}

fn eval(w: &mut World, p: &P18, rec: &mut Rec) -> bool {
    let cfg = WorldCfg { start_time: 0, epoch_genesis: 10, n_users: 1, ..Default::default() };
    restore_base(w, "c18", &cfg, |_| {});
    match p {
        P18::Point { genesis, duration, off, sub_ns, ids } => {
            w.set_time(0);
            let o = inst(w, *genesis, *duration);
            if !o.is_ok() {
                rec.viol("C18_valid_config_refused", format!("instantiate g={genesis} d={duration} at t=0 refused: {}", o.err_text()));
                return false;
            }
            let a = addr_of(&o);
            let now_ns = (*genesis as i128 + off) * NS as i128 + *sub_ns as i128;
            if now_ns < 0 || now_ns as u128 > MAX_NS {
                return false;
            }
            check_now(w, &a, *genesis, *duration, now_ns as u128, rec);
            for id in ids {
                check_epoch_id(w, &a, *genesis, *duration, *id, rec);
            }
            true
        }
        P18::Accept { block, sub_ns, genesis, duration } => {
            w.set_time_nanos((*block as u128 * NS + *sub_ns as u128) as u64);
            let should = *duration >= 86_400 && *genesis >= *block;
            let o = inst(w, *genesis, *duration);
            rec.outcome("Instantiate", o.class());
            if o.is_ok() != should {
                rec.viol("C18_instantiate_acceptance", format!("block={block}+{sub_ns}ns g={genesis} d={duration}: accepted={} expected={should} {}", o.is_ok(), o.err_text()));
            }
            // UpdateConfig on the world's own epoch manager (owner = user0); nothing else in the message
            let pre: em::ConfigResponse = w.query(&w.epoch_manager, &em::QueryMsg::Config {}).unwrap();
            let (owner, emaddr) = (w.users[0].clone(), w.epoch_manager.clone());
            let o = w.exec(&owner, &emaddr, &em::ExecuteMsg::UpdateConfig { epoch_config: Some(em::EpochConfig { duration: Uint64::new(*duration), genesis_epoch: Uint64::new(*genesis) }) }, &[]);
            rec.outcome("UpdateConfig", o.class());
            let post: em::ConfigResponse = w.query(&w.epoch_manager, &em::QueryMsg::Config {}).unwrap();
            if o.is_ok() != should {
                rec.viol("C18_update_acceptance", format!("block={block}+{sub_ns}ns g={genesis} d={duration}: accepted={} expected={should} {}", o.is_ok(), o.err_text()));
            }
            if o.is_ok() {
                if post.epoch_config.duration.u64() != *duration || post.epoch_config.genesis_epoch.u64() != *genesis {
                    rec.viol("C18_update_effect", format!("config after update {:?}", post));
                }
            } else if post != pre {
                rec.viol("C18_rejected_update_changed_config", format!("{:?} -> {:?}", pre, post));
            }
            true
        }
        P18::Walk { genesis, duration, start_off, sub_ns, steps } => {
            w.set_time(0);
            let o = inst(w, *genesis, *duration);
            if !o.is_ok() {
                rec.viol("C18_valid_config_refused", format!("instantiate g={genesis} d={duration} refused"));
                return false;
            }
            let a = addr_of(&o);
            let mut now = (*genesis as u128 + *start_off as u128) * NS + *sub_ns as u128;
            let mut last = match check_now(w, &a, *genesis, *duration, now, rec) {
                Some(x) => x,
                None => return false,
            };
            for s in steps {
                let delta = match s {
                    0 => 1u128,
                    1 => *duration as u128 - 1,
                    _ => *duration as u128,
                };
                now += delta * NS;
                if now > MAX_NS {
                    break;
                }
                let id = match check_now(w, &a, *genesis, *duration, now, rec) {
                    Some(x) => x,
                    None => return false,
                };
                if id < last {
                    rec.viol("C18_id_decreased", format!("g={genesis} d={duration} now={now}: id {last} -> {id}"));
                }
                if *s == 2 && id != last + 1 {
                    rec.viol("C18_not_plus_one_per_duration", format!("g={genesis} d={duration} now={now}: id {last} -> {id} after exactly one duration"));
                }
                if *s != 2 && id > last + 1 {
                    rec.viol("C18_skipped_epoch", format!("g={genesis} d={duration} now={now}: id {last} -> {id} after less than one duration"));
                }
                last = id;
            }
            true
        }
    }
}

pub fn jobs(tier: Tier) -> Vec<Job> {
    let max_s: u64 = (MAX_NS / NS) as u64; // 18_446_744_073
    let geneses: Vec<u64> = vec![0, 1, GENESIS, 1u64 << 34, max_s - 5, max_s];
    let durations: Vec<u64> = tier.pick(vec![86_400, 86_401, 604_800, 1 << 40], vec![86_400, 86_401, 100_000, 604_800, 31_556_926, 1 << 33, 1 << 40, 1 << 63, u64::MAX]);
    let subs: Vec<u64> = vec![0, 1, 500_000_000, 999_999_999];
    let ks: Vec<u128> = tier.pick(vec![2, 1000], vec![2, 3, 7, 1000, 123_457]);
    let mut pts: Vec<P18> = vec![];
    for g in &geneses {
        for d in &durations {
            let dd = *d as i128;
            let mut offs: Vec<i128> = vec![-2, -1, 0, 1, dd - 1, dd, dd + 1];
            for k in &ks {
                let k = *k as i128;
                offs.extend([k * dd - 1, k * dd, k * dd + 1]);
            }
            // near the timestamp limit
            offs.extend([max_s as i128 - *g as i128 - 1, max_s as i128 - *g as i128]);
            let mut ids: Vec<u64> = vec![0, 1, 2, 1000, u64::MAX / d - 1, u64::MAX / d, u64::MAX / d + 1, u64::MAX];
            // ids around the representability limit of the nanosecond timestamp
            let lim = ((max_s as u128).saturating_sub(*g as u128) / *d as u128) as u64;
            ids.extend([lim.saturating_sub(1), lim, lim.saturating_add(1)]);
            for off in offs {
                for s in &subs {
                    pts.push(P18::Point { genesis: *g, duration: *d, off, sub_ns: *s, ids: ids.clone() });
                }
            }
        }
    }
    // acceptance grid
    for block in [0u64, 1, GENESIS, max_s - 10] {
        for s in [0u64, 999_999_999] {
            for gd in [-1i128, 0, 1, 1000] {
                let g = block as i128 + gd;
                if g < 0 {
                    continue;
                }
                for d in [0u64, 1, 86_399, 86_400, 86_401, 604_800, u64::MAX] {
                    pts.push(P18::Accept { block, sub_ns: s, genesis: g as u64, duration: d });
                }
            }
        }
    }
    // re-submitting the stored genesis (10 in this deployment) or its neighbours, before and after it has passed
    for block in [5u64, 9, 10, 11, 1000, GENESIS] {
        for s in [0u64, 999_999_999] {
            for g in [9u64, 10, 11] {
                for d in [86_399u64, 86_400, 172_800] {
                    pts.push(P18::Accept { block, sub_ns: s, genesis: g, duration: d });
                }
            }
        }
    }
    // transition system: every step sequence of length L over {+1s, +d-1, +d}
    let l = tier.pick(5usize, 7usize);
    for g in [1u64, GENESIS] {
        for d in tier.pick(vec![86_400u64, 86_401], vec![86_400u64, 86_401, 604_800]) {
            for start_off in [0u64, d - 1] {
                for s in [0u64, 999_999_999] {
                    let n = 3usize.pow(l as u32);
                    for code in 0..n {
                        let mut c = code;
                        let steps: Vec<u8> = (0..l).map(|_| { let x = (c % 3) as u8; c /= 3; x }).collect();
                        pts.push(P18::Walk { genesis: g, duration: d, start_off, sub_ns: s, steps });
                    }
                }
            }
        }
    }
    vec![grid_job(
        "c18-grid",
        "every point of {genesis} x {duration} x {now offsets incl. boundaries, k*d±1, timestamp limit} x {sub-second parts} x {epoch ids incl. overflow limits}, every instantiate/UpdateConfig acceptance combination, and every step sequence over {+1s,+d-1,+d} of the stated length; a point is non-trivial when the configuration could be deployed and queried",
        || WorldCfg { start_time: 0, epoch_genesis: 10, n_users: 1, ..Default::default() },
        pts,
        eval,
    )]
}
