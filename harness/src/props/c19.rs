//! C19 — stableswap pricing tracks the exact invariant or fails cleanly. Exhaustive grid of pool states x
//! offers x ordered asset pairs through the real Simulation query / Swap / first ProvideLiquidity,
//! against the big-integer bisection oracles of exact.rs.
use crate::engine::*;
use crate::exact::*;
use crate::pu::*;
use crate::report::*;
use crate::world::*;
use cosmwasm_std::coin;
use mantra_dex_std::pool_manager as pm;
use num_bigint::BigInt;
use serde::{Deserialize, Serialize};

pub const K: u32 = 6;
const DN: [&str; 4] = ["uom", "uusd", "uusdc", "uweth"];

#[derive(Clone, Debug, Serialize, Deserialize)]
pub struct P19 {
    pub amp: u64,
    pub decs: Vec<u8>,
    pub res: Vec<u128>,
    /// create the pool with its denoms in reverse (non-alphabetical) order
    #[serde(default)]
    pub unsorted: bool,
    /// after the first deposit, someone makes a dust deposit (1 unit of every asset) with liquidity_max_slippage = 1
    #[serde(default)]
    pub dust_deposit_with_tolerance: bool,
}

fn abs(x: &BigInt) -> BigInt {
    if x < &BigInt::from(0) {
        -x.clone()
    } else {
        x.clone()
    }
}

pub fn exact_out_k(xs: &[BigInt], d: &BigInt, ann: &BigInt, oi: usize, ai: usize, off_k: &BigInt) -> BigInt {
    let n = xs.len();
    let mut others = vec![];
    for i in 0..n {
        if i != ai {
            let mut x = xs[i].clone();
            if i == oi {
                x += off_k;
            }
            others.push(x);
        }
    }
    let y = exact_y_floor(&others, d, ann, n as u32);
    &xs[ai] - y
}

/// Builds the pool of `p` (creation order and dust deposit as flagged) and returns, for two non-proportional second
/// deposits (1/7 of the first / of the last reserve plus one unit of every other asset), the LP minted (None = refused).
fn second_deposit_mints(w: &mut World, p: &P19) -> Option<Vec<Option<u128>>> {
    let cfg = cfg();
    restore_base(w, "c19", &cfg, |_| {});
    let n = p.decs.len();
    let dn: Vec<String> = DN[..n].iter().map(|s| s.to_string()).collect();
    let (mut cdn, mut cdec) = (dn.clone(), p.decs.clone());
    if p.unsorted {
        cdn.reverse();
        cdec.reverse();
    }
    let mk = PuOp::CreatePool { u: OWNER, denoms: cdn, decimals: cdec, fees: zero_fees(), amp: Some(p.amp), id: Some("g".into()), funds: vec![("uom".into(), 8888), ("uusd".into(), 1000)] };
    if !apply(w, &mk).is_ok() {
        return None;
    }
    let prov = |u: usize, funds: Vec<(String, u128)>, liq: Option<u64>| PuOp::Provide { u, pool: "o.g".into(), funds, lock: None, lock_id: None, recv: None, liq_slip: liq, swap_slip: None };
    if !apply(w, &prov(OWNER, dn.iter().cloned().zip(p.res.iter().cloned()).collect(), None)).is_ok() {
        return None;
    }
    if p.dust_deposit_with_tolerance && !apply(w, &prov(A, dn.iter().cloned().map(|d| (d, 1u128)).collect(), Some(10_000))).is_ok() {
        return None;
    }
    let lp = w.lp("o.g");
    let mid = w.snapshot();
    let s0 = w.supply(&lp);
    let mut out = vec![];
    for which in [0usize, n - 1] {
        w.restore(&mid);
        let mut add: Vec<u128> = vec![1; n];
        add[which] = p.res[which] / 7 + 1;
        let o = apply(w, &prov(B, dn.iter().cloned().zip(add.iter().cloned()).collect(), None));
        out.push(if o.is_ok() { Some(w.supply(&lp) - s0) } else { None });
    }
    Some(out)
}

fn eval(w: &mut World, p: &P19, rec: &mut Rec) -> bool {
    // ---- creation order is immaterial: the pool created with its denoms reversed (and, when flagged, after the
    // tolerance-carrying dust deposit) must mint what its alphabetically created twin mints for the same later deposits.
    // Both use a D within 2 units of the same exact root, so the minted amounts may differ by the rounding of D only.
    if p.unsorted {
        let twin = P19 { unsorted: false, ..p.clone() };
        let (a, b) = (second_deposit_mints(w, p), second_deposit_mints(w, &twin));
        rec.count("c19_creation_order_twins");
        match (a, b) {
            (Some(a), Some(b)) => {
                for (k, (x, y)) in a.iter().zip(b.iter()).enumerate() {
                    let ok = match (x, y) {
                        (Some(x), Some(y)) => {
                            let (hi, lo) = (*x.max(y), *x.min(y));
                            // 8 units of D at supply/D <= ~1 (zero-fee pools) plus a relative 1e-9 for 18-digit pools
                            hi - lo <= 16 + hi / 1_000_000_000
                        }
                        (None, None) => true,
                        _ => false,
                    };
                    if !ok {
                        rec.viol("C19_mint_depends_on_creation_order", format!("amp={} dec={:?} res={:?} dust-deposit={}: second deposit #{k} minted {:?} on the pool created in reverse denom order, {:?} on the pool created in alphabetical order", p.amp, p.decs, p.res, p.dust_deposit_with_tolerance, x, y));
                    }
                }
            }
            (None, None) => {}
            _ => rec.viol("C19_mint_depends_on_creation_order", format!("amp={} dec={:?} res={:?}: only one of the twins could be prepared", p.amp, p.decs, p.res)),
        }
    }
    let cfg = cfg();
    restore_base(w, "c19", &cfg, |_| {});
    let n = p.decs.len();
    let dn: Vec<String> = DN[..n].iter().map(|s| s.to_string()).collect();
    let (mut cdn, mut cdec) = (dn.clone(), p.decs.clone());
    if p.unsorted {
        cdn.reverse();
        cdec.reverse();
    }
    let mk = PuOp::CreatePool { u: OWNER, denoms: cdn, decimals: cdec, fees: zero_fees(), amp: Some(p.amp), id: Some("g".into()), funds: vec![("uom".into(), 8888), ("uusd".into(), 1000)] };
    if !apply(w, &mk).is_ok() {
        rec.viol("C19_setup", "pool creation refused".into());
        return false;
    }
    let maxd = *p.decs.iter().max().unwrap() as u32;
    let xs: Vec<BigInt> = p.res.iter().zip(&p.decs).map(|(r, d)| scale(*r, *d as u32, maxd, K)).collect();
    let ann = BigInt::from(p.amp) * BigInt::from(n as u64);
    let d_exact = exact_d_floor(&xs, &ann);
    let unit = BigInt::from(10u32).pow(K);
    let state = format!("amp={} dec={:?} res={:?}{}{}", p.amp, p.decs, p.res, if p.unsorted { " created-unsorted" } else { "" }, if p.dust_deposit_with_tolerance { " +dust-deposit(tolerance 1)" } else { "" });
    // ---- D used for minting: the first deposit mints exactly D (supply after it)
    let s0 = w.snapshot();
    let dep = PuOp::Provide { u: OWNER, pool: "o.g".into(), funds: dn.iter().cloned().zip(p.res.iter().cloned()).collect(), lock: None, lock_id: None, recv: None, liq_slip: None, swap_slip: None };
    let o = apply(w, &dep);
    rec.outcome("FirstDeposit", o.class());
    if !o.is_ok() {
        if w.app.storage().data != s0.storage.data {
            rec.viol("C19_refused_deposit_changed_state", state.clone());
        }
        return false;
    }
    let lp = w.lp("o.g");
    let supply = w.supply(&lp);
    rec.count("c19_mint_d_checks");
    let d_floor = &d_exact / &unit;
    let diff = BigInt::from(supply) * &unit - &d_exact;
    if abs(&(BigInt::from(supply) - &d_floor)) > BigInt::from(2) {
        // |D_used - floor(D*)| > 2 smallest units
        rec.viol_kf("C19_mint_d_inexact", format!("{state} supply={supply}"), format!("{state}: first deposit minted a total supply (= D used) of {supply}, exact D is {} (difference {} units of 10^-{K})", &d_exact / &unit, diff));
    }
    // ---- optionally: a dust deposit carrying a deposit tolerance (the only one a stableswap pool accepts is 1 on a
    // deposit that leaves isqrt(D) unchanged); pricing afterwards is judged on the reserves the pool then reports
    let mut p = p.clone();
    if p.dust_deposit_with_tolerance {
        let dust = PuOp::Provide { u: A, pool: "o.g".into(), funds: dn.iter().cloned().map(|d| (d, 1u128)).collect(), lock: None, lock_id: None, recv: None, liq_slip: Some(10_000), swap_slip: None };
        let sd = w.snapshot();
        let o = apply(w, &dust);
        rec.outcome("DustDepositWithTolerance", o.class());
        if !o.is_ok() {
            if w.app.storage().data != sd.storage.data {
                rec.viol("C19_refused_deposit_changed_state", state.clone());
            }
            return true;
        }
        rec.count("c19_dust_deposits_accepted");
        let Some(pi) = observe_pool(w, "o.g") else { return false };
        for (i, d) in dn.iter().enumerate() {
            match pi.pool_info.assets.iter().find(|c| &c.denom == d) {
                Some(c) => p.res[i] = c.amount.u128(),
                None => {
                    rec.viol("C19_setup", format!("{state}: reserve of {d} missing"));
                    return false;
                }
            }
        }
    }
    let p = &p;
    let xs: Vec<BigInt> = p.res.iter().zip(&p.decs).map(|(r, d)| scale(*r, *d as u32, maxd, K)).collect();
    let d_exact = exact_d_floor(&xs, &ann);
    // ---- quotes
    let pmaddr = w.pool_manager.clone();
    for oi in 0..n {
        for ai in 0..n {
            if oi == ai {
                continue;
            }
            let r = p.res[oi];
            let mut offers: Vec<u128> = vec![1, 2, r / 10_000, r / 100, r / 2, r, r.saturating_mul(3)];
            offers.retain(|x| *x > 0);
            offers.dedup();
            for off in offers {
                let q: Result<pm::SimulationResponse, String> = w.query(&pmaddr, &pm::QueryMsg::Simulation { offer_asset: coin(off, &dn[oi]), ask_asset_denom: dn[ai].clone(), pool_identifier: "o.g".into() });
                rec.count("c19_quotes");
                match q {
                    Err(_) => {
                        rec.outcome("Simulation", "refused");
                    }
                    Ok(s) => {
                        rec.outcome("Simulation", "ok");
                        let gross = s.return_amount.u128() + s.swap_fee_amount.u128() + s.protocol_fee_amount.u128() + s.burn_fee_amount.u128() + s.extra_fees_amount.u128();
                        if gross > p.res[ai] {
                            rec.viol("C19_output_exceeds_reserve", format!("{state} offer {off} {}->{}: quoted {gross} > reserve {}", oi, ai, p.res[ai]));
                            continue;
                        }
                        let off_k = scale(off, p.decs[oi] as u32, maxd, K);
                        let two_off = scale(2, p.decs[oi] as u32, maxd, K);
                        let ex = exact_out_k(&xs, &d_exact, &ann, oi, ai, &off_k);
                        let ex_hi = exact_out_k(&xs, &d_exact, &ann, oi, ai, &(&off_k + &two_off));
                        let gk = scale(gross, p.decs[ai] as u32, maxd, K);
                        let tol = scale(2, p.decs[ai] as u32, maxd, K) + abs(&(&ex_hi - &ex)) + &unit;
                        let diff = &gk - &ex;
                        if abs(&diff) > tol {
                            let side = if diff > BigInt::from(0) { "trader" } else { "pool" };
                            let ask_unit = scale(1, p.decs[ai] as u32, maxd, K);
                            rec.viol_kf(
                                "C19_quote_inexact",
                                format!("{state} offer={off} {oi}->{ai} quote={gross}"),
                                format!("{state} offer {off} asset{oi}->asset{ai}: quote {gross} differs from the exact output by {} ask units in favour of the {side} (tolerance {} ask units)", &diff / &ask_unit, &tol / &ask_unit),
                            );
                        }
                    }
                }
            }
        }
    }
    // ---- refused executions leave no effect: a swap the quote refuses must also be refused, byte-identically
    let big = p.res[0].saturating_mul(1000);
    let s1 = w.snapshot();
    let o = apply(w, &PuOp::Swap { u: A, pool: "o.g".into(), offer: vec![(dn[0].clone(), big)], ask: dn[1].clone(), slip: Some(5000), belief: None, recv: None });
    if !o.is_ok() && w.app.storage().data != s1.storage.data {
        rec.viol("C19_refused_swap_changed_state", state);
    }
    true
}

pub fn points(tier: Tier) -> Vec<P19> {
    let mut v = vec![];
    let amps: Vec<u64> = tier.pick(vec![1, 10, 100, 5000, 1_000_000], vec![1, 2, 10, 50, 100, 1000, 5000, 100_000, 1_000_000]);
    let decsets: Vec<Vec<u8>> = tier.pick(
        vec![vec![6, 6], vec![6, 18], vec![18, 6], vec![8, 6], vec![12, 12], vec![18, 18], vec![6, 12, 18], vec![6, 6, 6], vec![6, 18, 6], vec![6, 6, 6, 6], vec![6, 12, 18, 8], vec![6, 18, 8, 6]],
        vec![vec![6, 6], vec![6, 18], vec![18, 6], vec![8, 6], vec![6, 8], vec![12, 12], vec![18, 18], vec![0, 6], vec![6, 12], vec![6, 12, 18], vec![18, 12, 6], vec![6, 6, 6], vec![18, 18, 18], vec![6, 18, 6], vec![18, 6, 18], vec![6, 6, 6, 6], vec![6, 12, 18, 8], vec![18, 6, 18, 6], vec![6, 18, 8, 6]],
    );
    let mags: Vec<(u128, i32)> = tier.pick(vec![(2, -3), (5, -1), (3, 0), (9, 0), (100, 0), (12_345, 0), (1, 6), (1, 9), (1, 12)], vec![(2, -3), (7, -3), (5, -1), (3, 0), (9, 0), (31, 0), (100, 0), (777, 0), (12_345, 0), (1, 5), (1, 6), (3, 7), (1, 9), (1, 12), (1, 15)]);
    let skews: Vec<u128> = tier.pick(vec![1, 3, 30, 1000], vec![1, 2, 3, 10, 30, 100, 1000]);
    for amp in &amps {
        for decs in &decsets {
            for (m, e) in &mags {
                for skew in &skews {
                    for pos in 0..2usize {
                        let mut res: Vec<u128> = vec![];
                        let mut ok = true;
                        for (i, d) in decs.iter().enumerate() {
                            let ex = *d as i32 + e;
                            if ex < 0 {
                                ok = false;
                                break;
                            }
                            let base = m * 10u128.pow(ex as u32);
                            let sk = if (pos == 0 && i == 0) || (pos == 1 && i == decs.len() - 1) { *skew } else { 1 };
                            res.push(base * sk + if pos == 1 { 7 } else { 0 });
                        }
                        if ok && (pos == 0 || *skew > 1) {
                            v.push(P19 { amp: *amp, decs: decs.clone(), res: res.clone(), unsorted: false, dust_deposit_with_tolerance: false });
                            // the same pool created in non-alphabetical order, with and without the re-sorting dust deposit
                            if *skew <= 3 && (*amp == 100 || *amp == 1) {
                                v.push(P19 { amp: *amp, decs: decs.clone(), res: res.clone(), unsorted: true, dust_deposit_with_tolerance: false });
                                v.push(P19 { amp: *amp, decs: decs.clone(), res: res.clone(), unsorted: true, dust_deposit_with_tolerance: true });
                                v.push(P19 { amp: *amp, decs: decs.clone(), res, unsorted: false, dust_deposit_with_tolerance: true });
                            }
                        }
                    }
                }
            }
        }
    }
    // mixed-decimals pools whose reserves hold the same number of raw units of every asset (balanced in raw units, heavily
    // imbalanced in value)
    for amp in &amps {
        for decs in &decsets {
            if decs.iter().all(|d| d == &decs[0]) {
                continue;
            }
            for raw in [1_000_000_000u128, 3_000_000_000_007] {
                v.push(P19 { amp: *amp, decs: decs.clone(), res: vec![raw; decs.len()], unsorted: false, dust_deposit_with_tolerance: false });
            }
        }
    }
    v
}

pub fn jobs(tier: Tier) -> Vec<Job> {
    vec![grid_job(
        "c19-stableswap-grid",
        "stableswap pools over {amp} x {decimals mixes} x {magnitude 2e-3 .. 1e12 tokens} x {skew 1..1000 on either end}; per pool: the D used for minting (supply after the first deposit) vs the exact root, and Simulation quotes for every ordered asset pair x offers {1, 2, 0.01%, 1%, 50%, 100%, 300% of the offer reserve} vs the exact solution y* (tolerance: 2 ask units + exact value of 2 offer units); non-trivial = the pool could be funded",
        cfg,
        points(tier),
        eval,
    )]
}
