//! C20 — rejected or partially failing operations leave no trace. Fault enumeration (DESIGN §1.4): for
//! every enabled operation of every explored state of both universes, the message is re-run with the
//! k-th environment call (bank send/burn/mint, token-factory call) failing, for every k.
use crate::engine::*;
use crate::fu::{self, FuCtx, FuOp};
use crate::pu::{self, PuCtx, PuOp};
use crate::report::*;
use crate::world::*;

/// Generic enumeration. `run` applies the operation on the given world; returns number of injected runs.
/// `tolerated(k, log)` says whether a failure of call k is the documented swallow point.
fn enumerate_faults(
    cfgw: &WorldCfg,
    s0: &Snapshot,
    out_ok: bool,
    storage_unchanged: bool,
    desc: &str,
    run: &dyn Fn(&mut World) -> Outcome,
    tolerated: &dyn Fn(&str) -> bool,
    check_tolerated: &dyn Fn(&mut World, usize, &mut Rec),
    rec: &mut Rec,
) {
    if !out_ok {
        rec.count("c20_rejected_messages");
        if !storage_unchanged {
            rec.viol("C20_rejected_message_left_trace", format!("{desc} was rejected but chain storage changed"));
        }
        return;
    }
    with_scratch(cfgw, s0, |w2| {
        // reference run with logging to learn the environment calls
        w2.restore(s0);
        w2.plan.reset(&[]);
        w2.plan.logging.set(true);
        let o = run(w2);
        w2.plan.logging.set(false);
        if !o.is_ok() {
            rec.viol("C20_nondeterministic", format!("{desc} succeeded in the explorer but not on the scratch world"));
            return;
        }
        let n = w2.plan.calls();
        let log: Vec<String> = w2.plan.log.borrow().clone();
        rec.count_n("c20_env_calls_seen", n as u64);
        let mut tol_ks = vec![];
        for k in 1..=n {
            w2.restore(s0);
            w2.plan.reset(&[k]);
            let o = run(w2);
            w2.plan.reset(&[]);
            rec.count("c20_injected_runs");
            rec.validated += 1;
            let is_tol = tolerated(&log[(k - 1) as usize]);
            if is_tol {
                tol_ks.push(k);
                if !o.is_ok() {
                    rec.viol("C20_tolerated_failure_blocked_close", format!("{desc}: failing call {k} ({}) must not block the close: {}", short(&log[(k - 1) as usize]), o.err_text()));
                } else {
                    rec.count("c20_tolerated_failures");
                    check_tolerated(w2, (k - 1) as usize, rec);
                }
            } else {
                if o.is_ok() {
                    rec.viol("C20_failure_swallowed", format!("{desc}: call {k} of {n} ({}) failed but the message succeeded", short(&log[(k - 1) as usize])));
                } else if w2.app.storage().data != s0.storage.data {
                    rec.viol("C20_partial_failure_left_trace", format!("{desc}: call {k} of {n} ({}) failed, the message failed, but chain storage changed", short(&log[(k - 1) as usize])));
                }
            }
        }
        // pairs: the tolerated failure plus a later one must abort everything
        for &k1 in &tol_ks {
            for k2 in (k1 + 1)..=n {
                if tol_ks.contains(&k2) {
                    continue;
                }
                w2.restore(s0);
                w2.plan.reset(&[k1, k2]);
                let o = run(w2);
                w2.plan.reset(&[]);
                rec.count("c20_injected_runs");
                if o.is_ok() {
                    rec.viol("C20_failure_swallowed", format!("{desc}: calls {k1} (tolerated) and {k2} ({}) failed but the message succeeded", short(&log[(k2 - 1) as usize])));
                } else if w2.app.storage().data != s0.storage.data {
                    rec.viol("C20_partial_failure_left_trace", format!("{desc}: calls {k1},{k2} failed, message failed, storage changed"));
                }
            }
        }
    });
}

fn short(s: &str) -> String {
    s.chars().take(160).collect()
}

pub fn pu_oracle(c: &PuCtx, rec: &mut Rec) {
    if matches!(c.op, PuOp::Donate { .. }) {
        return; // a plain bank send is not a contract message
    }
    let op = c.op.clone();
    enumerate_faults(&pu::cfg(), c.s0, c.out.is_ok(), c.storage_unchanged, &format!("{:?}", c.op), &|w| pu::apply(w, &op), &|_| false, &|_, _, _| {}, rec);
    if c.out.is_ok() && c.buffer_present {
        rec.viol("C20_buffer_left", "single-side buffer present after a successful message".into());
    }
}

pub fn fu_oracle(c: &FuCtx, rec: &mut Rec) {
    if matches!(c.op, FuOp::Advance { .. } | FuOp::Base) {
        return;
    }
    let op = c.op.clone();
    let fm_addr = c.w.farm_manager.to_string();
    // farms that this message removes in the fault-free run (manual close, or auto-close on creation)
    let removed: Vec<_> = c.pre.farms.iter().filter(|f| !c.post.farms.iter().any(|g| g.identifier == f.identifier && g.start_epoch == f.start_epoch && g.owner == f.owner)).cloned().collect();
    let is_close = matches!(c.op, FuOp::CloseFarm { .. } | FuOp::CreateFarm { .. });
    let removed2 = removed.clone();
    let tolerated = move |call: &str| -> bool {
        // the refund transfer of a farm being closed: bank send from the farm manager to that farm's owner in its reward denom
        is_close && call.starts_with(&format!("bank.exec {fm_addr} ")) && removed2.iter().any(|f| call.contains(&format!("to_address: \"{}\"", f.owner)) && call.contains(&format!("\"{}\"", f.farm_asset.denom)) && call.contains(&format!("{}", f.farm_asset.amount.u128() - f.claimed_amount.u128())))
    };
    let post = c.post.clone();
    let pre = c.pre.clone();
    let removed3 = removed.clone();
    let check_tolerated = move |w2: &mut World, _idx: usize, rec: &mut Rec| {
        // the close completes; apart from the un-refundable amount staying in the contract nothing differs from the fault-free run
        let o = fu::observe(w2);
        if o.farms != post.farms || o.positions != post.positions {
            rec.viol("C20_tolerated_failure_side_effect", format!("farms/positions differ from the fault-free run: {:?} vs {:?}", o.farms, post.farms));
        }
        let mut diffs = vec![];
        for acc in 0..o.bal.len() {
            let mut denoms: std::collections::BTreeSet<String> = o.bal[acc].keys().cloned().collect();
            denoms.extend(post.bal[acc].keys().cloned());
            for d in denoms {
                let a = o.b(acc, &d) as i128 - post.b(acc, &d) as i128;
                if a != 0 {
                    diffs.push((acc, d, a));
                }
            }
        }
        // exactly: farm manager +x, one closed farm's owner -x
        let ok = diffs.len() == 2 && diffs.iter().any(|(acc, _, a)| *acc == fu::FM && *a > 0) && diffs.iter().any(|(acc, d, a)| *a < 0 && removed3.iter().any(|f| fu::acc_index(w2, &f.owner) == Some(*acc) && &f.farm_asset.denom == d)) && diffs[0].2 + diffs[1].2 == 0;
        if !ok {
            rec.viol("C20_tolerated_failure_side_effect", format!("balances differ from the fault-free run by {:?}", diffs));
        }
        let _ = &pre;
    };
    let cfgw = fu::cfg_with_fee(&("uom".to_string(), c.pre.cfg.as_ref().map(|x| x.create_farm_fee.amount.u128()).unwrap_or(1000)));
    enumerate_faults(&cfgw, c.s0, c.out.is_ok(), c.storage_unchanged, &format!("{:?}", c.op), &|w| fu::apply(w, &op), &tolerated, &check_tolerated, rec);
}

pub fn jobs(tier: Tier) -> Vec<Job> {
    let pfull = pu::PuChecker { name: "c20-pu-full".into(), seeds: vec!["S0", "S2", "S4"], alpha: pu::Alpha::Full, oracles: vec![pu_oracle] };
    let mut ffull = fu::FuChecker::new("c20-fu-full", vec!["F0", "F2", "F3"], fu::FAlpha::Full, vec![fu_oracle]);
    ffull.reward_denoms = vec!["uusdc", "lp1"];
    let ffarms = fu::FuChecker::new("c20-fu-farms", vec!["F2"], fu::FAlpha::Farms, vec![fu_oracle]);
    vec![explore_job(pfull, tier.pick(2, 3), Caps::default()), explore_job(ffull, tier.pick(2, 3), Caps::default()), explore_job(ffarms, tier.pick(3, 4), Caps::default())]
}
