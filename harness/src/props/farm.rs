//! Oracles over the farm universe: C05 custody, C06/C07 rewards, C08 positions, C10(a) weights,
//! C11 farm lifecycle. Each is a transition oracle on `FuCtx` (see fu.rs) or a state oracle.
use crate::engine::*;
use crate::fu::*;
use crate::report::*;
use crate::world::*;
use mantra_dex_std::farm_manager as fm;
use std::collections::{BTreeMap, BTreeSet};

fn rejected_unchanged(c: &FuCtx, rec: &mut Rec, kind: &str) {
    if !c.out.is_ok() && !c.storage_unchanged {
        rec.viol(kind, format!("rejected operation changed chain storage: {:?}", c.op));
    }
}

// ------------------------------------------------------------------------------------------ C05
pub fn c05_custody(c: &FuCtx, rec: &mut Rec) {
    rejected_unchanged(c, rec, "C05_rejected_changed_state");
    if !c.out.is_ok() {
        return;
    }
    rec.validated += 1;
    let mut need: BTreeMap<String, u128> = BTreeMap::new();
    for p in &c.post.positions {
        *need.entry(p.lp_asset.denom.clone()).or_default() += p.lp_asset.amount.u128();
    }
    for f in &c.post.farms {
        *need.entry(f.farm_asset.denom.clone()).or_default() += f.farm_asset.amount.u128().saturating_sub(f.claimed_amount.u128());
        if f.claimed_amount > f.farm_asset.amount {
            rec.viol("C05_claimed_exceeds_funded", format!("farm {} claimed {} funded {}", f.identifier, f.claimed_amount, f.farm_asset.amount));
        }
    }
    for (d, n) in &need {
        let have = c.post.b(FM, d);
        if have < *n {
            rec.viol("C05_custody", format!("{d}: farm manager holds {have} < positions + unclaimed farm budgets {n}"));
        }
    }
}

/// "Hence every position can be withdrawn in full and every farm's remainder refunded, in any order":
/// a drain continuation from the state, in two fixed orders.
pub fn c05_drain(chk: &FuChecker, w: &mut World, _g: &FuGhost, rec: &mut Rec) {
    let snap = w.snapshot();
    for order in 0..2 {
        w.restore(&snap);
        let fail = drain(w, order);
        rec.count("c05_drains");
        if let Some(msg) = fail {
            rec.viol("C05_drain_failed", format!("order {order}: {msg}"));
        }
    }
    w.restore(&snap);
    let _ = chk;
}

fn drain(w: &mut World, order: usize) -> Option<String> {
    let close_farms = |w: &mut World| -> Option<String> {
        let o = observe_light(w);
        for f in &o.farms {
            let r = apply(w, &FuOp::CloseFarm { u: acc_index(w, &f.owner).unwrap_or(OWNER), id: f.identifier.clone() });
            if !r.is_ok() {
                return Some(format!("closing farm {} refused: {}", f.identifier, r.err_text()));
            }
        }
        None
    };
    let exit_positions = |w: &mut World| -> Option<String> {
        // unlock whatever is already closed
        w.advance(366 * DAY);
        let o = observe_light(w);
        for p in o.positions.iter().filter(|p| !p.open) {
            let u = acc_index(w, &p.receiver).unwrap();
            let b0 = w.balance(&p.receiver, &p.lp_asset.denom);
            let r = apply(w, &FuOp::WithdrawPos { u, id: p.identifier.clone(), emergency: None });
            if !r.is_ok() {
                return Some(format!("withdrawing unlocked position {} refused: {}", p.identifier, r.err_text()));
            }
            if w.balance(&p.receiver, &p.lp_asset.denom) - b0 != p.lp_asset.amount.u128() {
                return Some(format!("position {} paid {} recorded {}", p.identifier, w.balance(&p.receiver, &p.lp_asset.denom) - b0, p.lp_asset.amount));
            }
        }
        for u in 0..N_USERS {
            let mine: Vec<fm::Position> = o.positions.iter().filter(|p| p.open && p.receiver == w.users[u]).cloned().collect();
            if mine.is_empty() {
                continue;
            }
            let r = apply(w, &FuOp::Claim { u, until: None });
            if !r.is_ok() {
                return Some(format!("claim by user {u} before exit refused: {}", r.err_text()));
            }
            for p in &mine {
                let r = apply(w, &FuOp::ClosePos { u, id: p.identifier.clone(), partial: None });
                if !r.is_ok() {
                    return Some(format!("closing position {} refused: {}", p.identifier, r.err_text()));
                }
            }
        }
        w.advance(366 * DAY);
        let o2 = observe_light(w);
        for p in &o2.positions {
            let u = acc_index(w, &p.receiver).unwrap();
            let b0 = w.balance(&p.receiver, &p.lp_asset.denom);
            let r = apply(w, &FuOp::WithdrawPos { u, id: p.identifier.clone(), emergency: None });
            if !r.is_ok() {
                return Some(format!("withdrawing position {} refused: {}", p.identifier, r.err_text()));
            }
            if w.balance(&p.receiver, &p.lp_asset.denom) - b0 != p.lp_asset.amount.u128() {
                return Some(format!("position {} paid {} recorded {}", p.identifier, w.balance(&p.receiver, &p.lp_asset.denom) - b0, p.lp_asset.amount));
            }
        }
        None
    };
    let r = if order == 0 { exit_positions(w).or_else(|| close_farms(w)) } else { close_farms(w).or_else(|| exit_positions(w)) };
    if r.is_some() {
        return r;
    }
    let o = observe_light(w);
    if !o.positions.is_empty() || !o.farms.is_empty() {
        return Some(format!("{} positions / {} farms left after the drain", o.positions.len(), o.farms.len()));
    }
    None
}

// ------------------------------------------------------------------------------------ C06 / C07
fn claim_deltas(c: &FuCtx, u: usize) -> BTreeMap<String, u128> {
    let mut m = BTreeMap::new();
    let mut denoms: BTreeSet<String> = c.pre.bal[u].keys().cloned().collect();
    denoms.extend(c.post.bal[u].keys().cloned());
    for d in denoms {
        let dl = c.delta(u, &d);
        if dl > 0 {
            m.insert(d, dl as u128);
        } else if dl < 0 {
            m.insert(format!("NEGATIVE:{d}"), (-dl) as u128);
        }
    }
    m
}

/// P1 history pattern (DESIGN §2): Claim{until_epoch:u} by a user holding a weight entry for an LP at an epoch > u+... — only used
/// if P1 stays unrepaired; kept as a tag so a tainted (user) can be told apart.
pub fn c06_rewards(c: &FuCtx, rec: &mut Rec) {
    let FuOp::Claim { u, until } = c.op else {
        // farm budgets never overdrawn in any state
        if c.out.is_ok() {
            for f in &c.post.farms {
                budget_check(c, f, rec);
            }
        }
        return;
    };
    rec.count("c06_claims_seen");
    match &c.expected {
        Some(exp) => {
            if !c.out.is_ok() {
                rec.viol("C06_rightful_claim_failed", format!("Claim{{until:{until:?}}} by user {u} (model expects {:?}) refused: {}", exp.per_denom, c.out.err_text()));
                return;
            }
            rec.validated += 1;
            let got = claim_deltas(c, *u);
            if got != exp.per_denom {
                let over = got.iter().any(|(d, a)| a > exp.per_denom.get(d).unwrap_or(&0));
                if over {
                    rec.viol("C06_overpaid", format!("Claim{{until:{until:?}}} by user {u}: paid {:?}, weight share per epoch gives {:?} (cells {:?})", got, exp.per_denom, exp.cells));
                }
            }
            if !exp.per_denom.is_empty() {
                rec.count("c06_claims_that_paid");
            }
            for (fid, e, _) in &exp.cells {
                if c.g0.cells.contains(&(*u, fid.clone(), *e)) {
                    rec.viol("C06_epoch_paid_twice", format!("user {u} farm {fid} epoch {e}"));
                }
            }
            for ((fid, e), paid) in &c.g1.paid {
                if let Some(f) = c.g1.farms.get(fid) {
                    if *paid > f.rate {
                        rec.viol("C06_epoch_over_emission", format!("farm {fid} epoch {e}: paid {paid} > emission {}", f.rate));
                    }
                }
            }
            for f in &c.post.farms {
                budget_check(c, f, rec);
                // the farm's own claimed counter moves by exactly what was paid from it
                let pre_claimed = c.pre.farm(&f.identifier).map(|x| x.claimed_amount.u128()).unwrap_or(0);
                let cells: u128 = exp.cells.iter().filter(|x| x.0 == f.identifier).map(|x| x.2).sum();
                if f.claimed_amount.u128() - pre_claimed != cells {
                    rec.viol("C06_claimed_counter", format!("farm {} claimed_amount moved by {} but the claim's cells sum to {cells}", f.identifier, f.claimed_amount.u128() - pre_claimed));
                }
            }
        }
        None => {
            // not a valid claim by the model: it must not pay anything
            if c.out.is_ok() {
                let got = claim_deltas(c, *u);
                if !got.is_empty() {
                    rec.viol("C06_invalid_claim_paid", format!("Claim{{until:{until:?}}} by user {u} is not valid (cursor {:?}, epoch {}) but paid {:?}", c.g0.last_claimed.get(u), c.pre.cur, got));
                }
            }
        }
    }
}

fn budget_check(c: &FuCtx, f: &fm::Farm, rec: &mut Rec) {
    // what the reference ledger saw paid out of this farm, against the caps of the statement and the farm's own counter
    if let Some(gf) = c.g1.farms.get(&f.identifier) {
        let cur = c.post.cur;
        let elapsed = if cur >= f.start_epoch { (cur.min(f.preliminary_end_epoch - 1) - f.start_epoch + 1) as u128 } else { 0 };
        if gf.claimed > (f.emission_rate.u128() * elapsed).min(f.farm_asset.amount.u128()) {
            rec.viol("C06_cumulative_payout_over_cap", format!("farm {}: paid {} in total > min(funded {}, rate {} x {} elapsed epochs)", f.identifier, gf.claimed, f.farm_asset.amount, f.emission_rate, elapsed));
        }
        if gf.claimed != f.claimed_amount.u128() {
            rec.viol("C06_claimed_counter_ne_paid", format!("farm {}: claimed_amount {} but {} was paid out of it (after {:?})", f.identifier, f.claimed_amount, gf.claimed, c.op));
        }
    }
    let cur = c.post.cur;
    let elapsed = if cur >= f.start_epoch { (cur.min(f.preliminary_end_epoch - 1) - f.start_epoch + 1) as u128 } else { 0 };
    let cap = (f.emission_rate.u128() * elapsed).min(f.farm_asset.amount.u128());
    if f.claimed_amount.u128() > cap {
        rec.viol("C06_farm_overdrawn", format!("farm {} claimed {} > min(funded {}, rate {} x {} elapsed epochs)", f.identifier, f.claimed_amount, f.farm_asset.amount, f.emission_rate, elapsed));
    }
}

/// State oracle: no user can make another's rightful claim fail — every user with an open position can claim now.
pub fn c06_claimable(_chk: &FuChecker, w: &mut World, _g: &FuGhost, rec: &mut Rec) {
    let snap = w.snapshot();
    let o = observe(w);
    for u in [A, B] {
        if o.positions.iter().any(|p| p.open && p.receiver == w.users[u]) {
            w.restore(&snap);
            rec.count("c06_hypothetical_claims");
            let q: Result<fm::RewardsResponse, String> = w.query(&w.farm_manager, &fm::QueryMsg::Rewards { address: w.users[u].to_string(), until_epoch: None });
            if let Err(e) = q {
                rec.viol("C06_rewards_query_fails", format!("Rewards{{}} for user {u} fails: {e}"));
            }
            let r = apply(w, &FuOp::Claim { u, until: None });
            if !r.is_ok() {
                rec.viol("C06_claim_blocked", format!("user {u} holds an open position but Claim{{}} fails: {}", r.err_text()));
            }
        }
    }
    w.restore(&snap);
}

pub fn c07_share(c: &FuCtx, rec: &mut Rec) {
    // a stake earns from the next epoch on: whatever adds LP to a position (creation, top-up by the owner or through the
    // pool manager) raises the *owner's* weight in effect from the next epoch by at least the LP added
    if c.out.is_ok() && matches!(c.op, FuOp::CreatePos { .. } | FuOp::ExpandPos { .. } | FuOp::ProvideLock { .. } | FuOp::ProvideLockSingle { .. }) {
        for p in &c.post.positions {
            if !p.open {
                continue;
            }
            let before = c.pre.positions.iter().find(|q| q.identifier == p.identifier).map(|q| q.lp_asset.amount.u128()).unwrap_or(0);
            let now = p.lp_asset.amount.u128();
            let (Some(owner), Some(li)) = (acc_index(c.w, &p.receiver), c.post.lp_index(&p.lp_asset.denom)) else { continue };
            if now > before && owner < N_USERS {
                rec.count("c07_stakes_judged");
                let (w0, w1) = (c.pre.weight(owner, li, c.pre.cur + 1), c.post.weight(owner, li, c.post.cur + 1));
                if w1 < w0 || w1 - w0 < now - before {
                    rec.viol("C07_stake_not_weighted", format!("{:?}: position {} of user {owner} grew by {} LP but the owner's weight for the next epoch went {w0} -> {w1}", c.op, p.identifier, now - before));
                }
            }
        }
    }
    // ... and nothing but taking LP out of open positions lowers it: an operation after which the user's open LP in a token
    // is at least what it was leaves the user's next-epoch weight at least what it was
    if c.out.is_ok() && !matches!(c.op, FuOp::Advance { .. } | FuOp::Base) {
        for u in 0..N_USERS {
            for li in 0..c.post.lps.len() {
                let open = |o: &FuObs| -> u128 { o.positions.iter().filter(|p| p.open && p.receiver == c.w.users[u] && p.lp_asset.denom == o.lps[li]).map(|p| p.lp_asset.amount.u128()).sum() };
                let (o0, o1) = (open(c.pre), open(c.post));
                let (w0, w1) = (c.pre.weight(u, li, c.pre.cur + 1), c.post.weight(u, li, c.post.cur + 1));
                if o1 >= o0 && o0 > 0 && w1 < w0 {
                    rec.viol("C07_weight_lost_without_unstaking", format!("{:?}: user {u} lp{li} keeps {o1} LP open (before: {o0}) but the weight for the next epoch went {w0} -> {w1}", c.op));
                }
            }
        }
    }
    let FuOp::Claim { u, until } = c.op else { return };
    let Some(exp) = &c.expected else { return };
    if !c.out.is_ok() {
        rec.viol("C07_rightful_claim_failed", format!("Claim{{until:{until:?}}} by user {u} refused: {}", c.out.err_text()));
        return;
    }
    rec.validated += 1;
    let got = claim_deltas(c, *u);
    if got != exp.per_denom {
        rec.viol("C07_claim_ne_share", format!("Claim{{until:{until:?}}} by user {u}: paid {:?}, floor(emission x weight / total) per farm-epoch gives {:?} (cells {:?})", got, exp.per_denom, exp.cells));
    }
    match &c.rewards_q {
        Some(Ok(q)) => {
            let q: BTreeMap<String, u128> = q.iter().filter(|(_, a)| **a > 0).map(|(d, a)| (d.clone(), *a)).collect();
            if q != got {
                rec.viol("C07_rewards_query_ne_claim", format!("Rewards{{until:{until:?}}} = {:?} but the immediate claim paid {:?}", q, got));
            }
        }
        Some(Err(e)) => rec.viol("C07_rewards_query_failed", format!("Rewards query failed ({e}) but the claim executed")),
        None => {}
    }
}

/// Schedule independence as a commuting diamond on every state: for every claim variant c of user A and every
/// non-claim operation o, (c; o; Claim{}) pays A in total exactly what (o; Claim{}) pays.
pub fn c07_diamond(chk: &FuChecker, w: &mut World, g: &FuGhost, rec: &mut Rec) {
    let snap = w.snapshot();
    let pre = observe(w);
    let u = A;
    if !pre.positions.iter().any(|p| p.open && p.receiver == w.users[u]) {
        return;
    }
    let cur = pre.cur;
    let mut claims = vec![FuOp::Claim { u, until: None }];
    let lc = g.last_claimed.get(&u).copied();
    for k in [1u64, 2] {
        if cur >= k && lc.map_or(true, |l| cur - k >= l) {
            claims.push(FuOp::Claim { u, until: Some(cur - k) });
        }
    }
    let all = enabled(chk, w, &pre, g);
    let others: Vec<FuOp> = all.into_iter().filter(|o| !matches!(o, FuOp::Claim { .. })).filter(|o| !matches!(o, FuOp::WithdrawPos { u: uu, emergency: Some(true), .. } if *uu == A)).filter(|o| !matches!(o, FuOp::CloseFarm { .. })).collect();
    let denoms: Vec<String> = {
        let mut s: BTreeSet<String> = pre.farms.iter().map(|f| f.farm_asset.denom.clone()).collect();
        s.insert("uusdc".into());
        s.into_iter().collect()
    };
    let user = w.users[u].clone();
    let bal = |w: &World| -> Vec<u128> { denoms.iter().map(|d| w.balance(&user, d)).collect() };
    for o in &others {
        // path 2: o ; Claim{}
        w.restore(&snap);
        let b0 = bal(w);
        if !apply(w, o).is_ok() {
            continue;
        }
        let mid = bal(w);
        let still_open = observe(w).positions.iter().any(|p| p.open && p.receiver == user);
        if !still_open {
            // o ended A's participation (A cannot claim afterwards). Leaving must not forfeit anything that claiming first
            // would have paid: c; o must give A in total what o alone gives (the contract refuses such an o while rewards
            // are pending; the emergency exit, which forfeits by documented design, is not among the operations tried)
            let o_alone: Vec<i128> = (0..denoms.len()).map(|i| mid[i] as i128 - b0[i] as i128).collect();
            for cl in &claims {
                w.restore(&snap);
                let a0 = bal(w);
                if !apply(w, cl).is_ok() {
                    continue;
                }
                if !apply(w, o).is_ok() {
                    rec.count("c07_diamond_op_disabled_by_claim");
                    continue;
                }
                let a2 = bal(w);
                rec.count("c07_leaving_diamonds");
                rec.validated += 1;
                for i in 0..denoms.len() {
                    let with_claim = a2[i] as i128 - a0[i] as i128;
                    if with_claim != o_alone[i] {
                        rec.viol("C07_schedule_dependent", format!("{}: {:?} ends the user's participation; after {:?} it leaves them {with_claim} in total, without claiming first only {} (the difference can never be claimed)", denoms[i], o, cl, o_alone[i]));
                    }
                }
            }
            continue;
        }
        let r2 = apply(w, &FuOp::Claim { u, until: None });
        if !r2.is_ok() {
            continue; // judged by C06's liveness oracle
        }
        let end2 = bal(w);
        let p2: Vec<i128> = (0..denoms.len()).map(|i| end2[i] as i128 - mid[i] as i128).collect();
        let o_effect: Vec<i128> = (0..denoms.len()).map(|i| mid[i] as i128 - b0[i] as i128).collect();
        for cl in &claims {
            w.restore(&snap);
            let a0 = bal(w);
            if !apply(w, cl).is_ok() {
                continue;
            }
            let a1 = bal(w);
            if !apply(w, o).is_ok() {
                // an operation that was possible is no longer possible after a claim: not a payout question
                rec.count("c07_diamond_op_disabled_by_claim");
                continue;
            }
            let a2 = bal(w);
            let r = apply(w, &FuOp::Claim { u, until: None });
            if !r.is_ok() {
                rec.viol("C07_diamond_final_claim_failed", format!("after {:?} then {:?}: {}", cl, o, r.err_text()));
                continue;
            }
            let a3 = bal(w);
            rec.count("c07_diamonds");
            rec.validated += 1;
            for i in 0..denoms.len() {
                let p1 = (a1[i] as i128 - a0[i] as i128) + (a3[i] as i128 - a2[i] as i128);
                let o1 = a2[i] as i128 - a1[i] as i128;
                if p1 != p2[i] || o1 != o_effect[i] {
                    rec.viol("C07_schedule_dependent", format!("{}: claiming {:?} before {:?} yields {} in total (operation effect {o1}), not claiming first yields {} (operation effect {})", denoms[i], cl, o, p1, p2[i], o_effect[i]));
                }
            }
        }
    }
    w.restore(&snap);
}

/// Metamorphic clause "spelling out a default equals omitting it" (farm universe): Claim{until_epoch: None} = the current
/// epoch, Withdraw{emergency_unlock: None} = false, Create{receiver: None} = the sender. The operation is re-run on a copy
/// of the pre-state with the default spelled out; outcome class and the whole chain storage must be identical.
fn fu_default_twin(c: &FuCtx) -> Option<FuOp> {
    match c.op {
        FuOp::Claim { u, until: None } => Some(FuOp::Claim { u: *u, until: Some(c.pre.cur) }),
        FuOp::WithdrawPos { u, id, emergency: None } => Some(FuOp::WithdrawPos { u: *u, id: id.clone(), emergency: Some(false) }),
        FuOp::CreatePos { u, lp, amount, dur, id, recv: None } => Some(FuOp::CreatePos { u: *u, lp: *lp, amount: *amount, dur: *dur, id: id.clone(), recv: Some(*u) }),
        _ => None,
    }
}
pub fn fu_defaults(c: &FuCtx, rec: &mut Rec) {
    let Some(twin) = fu_default_twin(c) else { return };
    let cfgw = cfg_with_fee(&("uom".to_string(), 1000)); // only the number of accounts matters for the scratch world
    let (ok, same) = with_scratch(&cfgw, c.s0, |w2| {
        let o = apply(w2, &twin);
        (o.is_ok(), w2.app.storage().data == c.w.app.storage().data)
    });
    rec.count("explicit_default_twins");
    rec.validated += 1;
    if ok != c.out.is_ok() || !same {
        let kind = match c.op {
            FuOp::Claim { .. } => "C07_omitted_until_epoch_is_not_the_current_epoch",
            _ => "C08_omitted_option_is_not_its_default",
        };
        rec.viol(kind, format!("{:?} accepted={} but with the default spelled out ({:?}) accepted={ok}, same resulting state={same}", c.op, c.out.is_ok(), twin));
    }
}

// ------------------------------------------------------------------------------------------ C08
fn others_untouched(c: &FuCtx, touched: &BTreeSet<String>, rec: &mut Rec) {
    for p in &c.pre.positions {
        if touched.contains(&p.identifier) {
            continue;
        }
        if c.post.pos(&p.identifier) != Some(p) {
            rec.viol("C08_other_position_changed", format!("{:?} changed position {} from {:?} to {:?}", c.op, p.identifier, p, c.post.pos(&p.identifier)));
        }
    }
    for p in &c.post.positions {
        if c.pre.pos(&p.identifier).is_none() && !touched.contains(&p.identifier) && !touched.contains("*new*") {
            rec.viol("C08_position_appeared", format!("{:?} created position {:?}", c.op, p));
        }
    }
    let mut ids = BTreeSet::new();
    for p in &c.post.positions {
        if !ids.insert(p.identifier.clone()) {
            rec.viol("C08_duplicate_identifier", p.identifier.clone());
        }
    }
}

pub fn c08_positions(c: &FuCtx, rec: &mut Rec) {
    rejected_unchanged(c, rec, "C08_rejected_changed_state");
    let ok = c.out.is_ok();
    let w = c.w;
    let sender_addr = |u: usize| accounts(w)[u].clone();
    let new_positions: Vec<&fm::Position> = c.post.positions.iter().filter(|p| c.pre.pos(&p.identifier).is_none()).collect();
    if ok {
        rec.validated += 1;
    }
    match c.op {
        FuOp::CreatePos { u, lp, amount, dur, recv, .. } => {
            let allowed = recv.map_or(true, |r| r == *u);
            if !allowed && ok {
                rec.viol("C08_created_for_someone_else", format!("{:?} accepted", c.op));
            }
            if ok {
                let owner = sender_addr(recv.unwrap_or(*u));
                if new_positions.len() != 1 {
                    rec.viol("C08_create_effect", format!("{} new positions", new_positions.len()));
                } else {
                    let p = new_positions[0];
                    if p.receiver != owner || p.lp_asset.amount.u128() != *amount || p.lp_asset.denom != c.pre.lp_denom(*lp) || p.unlocking_duration != *dur || !p.open || p.expiring_at.is_some() {
                        rec.viol("C08_create_effect", format!("{:?} produced {:?}", c.op, p));
                    }
                }
                if c.delta(FM, &c.pre.lp_denom(*lp)) != *amount as i128 || c.delta(*u, &c.pre.lp_denom(*lp)) != -(*amount as i128) {
                    rec.viol("C08_create_custody", format!("farm manager delta {} sender delta {}", c.delta(FM, &c.pre.lp_denom(*lp)), c.delta(*u, &c.pre.lp_denom(*lp))));
                }
                others_untouched(c, &["*new*".to_string()].into_iter().collect(), rec);
            }
        }
        FuOp::ProvideLock { u, lp, lock_id, .. } | FuOp::ProvideLockSingle { u, lp, lock_id, .. } => {
            if ok {
                let lpd = &c.pre.lp_denom(*lp);
                let minted = c.delta(FM, lpd);
                let mut touched = BTreeSet::new();
                let target = lock_id.as_ref().and_then(|i| c.pre.pos(i));
                match target {
                    Some(t) => {
                        touched.insert(t.identifier.clone());
                        let after = c.post.pos(&t.identifier);
                        if t.receiver != sender_addr(*u) {
                            rec.viol("C08_expanded_foreign_position_via_pool_manager", format!("{:?}", c.op));
                        }
                        if after.map(|a| a.lp_asset.amount.u128() as i128) != Some(t.lp_asset.amount.u128() as i128 + minted) || minted <= 0 {
                            rec.viol("C08_lock_effect", format!("position {:?} -> {:?}, LP minted to farm manager {minted}", t, after));
                        }
                    }
                    None => {
                        touched.insert("*new*".into());
                        if new_positions.len() != 1 || new_positions[0].receiver != sender_addr(*u) || new_positions[0].lp_asset.amount.u128() as i128 != minted || minted <= 0 || !new_positions[0].open {
                            rec.viol("C08_lock_effect", format!("new positions {:?}, LP minted to farm manager {minted}", new_positions));
                        }
                    }
                }
                others_untouched(c, &touched, rec);
            }
        }
        FuOp::ExpandPos { u, id, lp, amount } => {
            let t = c.pre.pos(id);
            let allowed = t.map_or(false, |t| t.open && t.receiver == sender_addr(*u) && t.lp_asset.denom == c.pre.lp_denom(*lp));
            if !allowed && ok {
                rec.viol("C08_unauthorised_expand", format!("{:?} accepted on {:?}", c.op, t));
            }
            if ok {
                if let Some(t) = t {
                    let mut want = t.clone();
                    want.lp_asset.amount += cosmwasm_std::Uint128::new(*amount);
                    if c.post.pos(id) != Some(&want) {
                        rec.viol("C08_expand_effect", format!("{:?} -> {:?}", t, c.post.pos(id)));
                    }
                    if c.delta(FM, &t.lp_asset.denom) != *amount as i128 {
                        rec.viol("C08_expand_custody", format!("farm manager delta {}", c.delta(FM, &t.lp_asset.denom)));
                    }
                }
                others_untouched(c, &[id.clone()].into_iter().collect(), rec);
            }
        }
        FuOp::ClosePos { u, id, partial } => {
            let t = c.pre.pos(id);
            let allowed = t.map_or(false, |t| t.open && t.receiver == sender_addr(*u));
            if !allowed && ok {
                rec.viol("C08_unauthorised_close", format!("{:?} accepted on {:?}", c.op, t));
            }
            if ok {
                if let Some(t) = t {
                    let amt = t.lp_asset.amount.u128();
                    let expiry = c.pre.now + t.unlocking_duration;
                    let part = partial.map(|p| p.1);
                    match part {
                        Some(x) if x < amt => {
                            let mut want = t.clone();
                            want.lp_asset.amount = cosmwasm_std::Uint128::new(amt - x);
                            if c.post.pos(id) != Some(&want) {
                                rec.viol("C08_partial_close_effect", format!("{:?} -> {:?} (closing {x})", t, c.post.pos(id)));
                            }
                            if new_positions.len() != 1 {
                                rec.viol("C08_partial_close_effect", format!("{} new positions", new_positions.len()));
                            } else {
                                let n = new_positions[0];
                                if n.receiver != t.receiver || n.lp_asset.amount.u128() != x || n.lp_asset.denom != t.lp_asset.denom || n.open || n.expiring_at != Some(expiry) || n.unlocking_duration != t.unlocking_duration {
                                    rec.viol("C08_partial_close_effect", format!("new closed position {:?} for closing {x} of {:?} at {}", n, t, c.pre.now));
                                }
                            }
                        }
                        Some(x) if x > amt => rec.viol("C08_close_more_than_held", format!("{:?} accepted", c.op)),
                        _ => {
                            let mut want = t.clone();
                            want.open = false;
                            want.expiring_at = Some(expiry);
                            if c.post.pos(id) != Some(&want) || !new_positions.is_empty() {
                                rec.viol("C08_close_effect", format!("{:?} -> {:?}", t, c.post.pos(id)));
                            }
                        }
                    }
                    // no LP moves on close; total recorded amount conserved
                    let sum = |o: &FuObs| -> u128 { o.positions.iter().filter(|p| p.lp_asset.denom == t.lp_asset.denom).map(|p| p.lp_asset.amount.u128()).sum() };
                    if sum(c.pre) != sum(c.post) || c.delta(FM, &t.lp_asset.denom) != 0 {
                        rec.viol("C08_close_not_conserving", format!("recorded LP {} -> {}, farm manager delta {}", sum(c.pre), sum(c.post), c.delta(FM, &t.lp_asset.denom)));
                    }
                }
                others_untouched(c, &[id.clone(), "*new*".to_string()].into_iter().collect(), rec);
            }
        }
        FuOp::WithdrawPos { u, id, emergency } => {
            let t = c.pre.pos(id);
            let is_owner = t.map_or(false, |t| t.receiver == sender_addr(*u));
            if !is_owner && ok {
                rec.viol("C08_unauthorised_withdraw", format!("{:?} accepted on {:?}", c.op, t));
            }
            if let Some(t) = t {
                let unlocked = !t.open && t.expiring_at.map_or(false, |e| c.pre.now >= e);
                let emerg = *emergency == Some(true);
                if is_owner && unlocked && !ok {
                    rec.viol("C08_withdraw_refused_after_unlock", format!("{:?} at {} refused: {}", t, c.pre.now, c.out.err_text()));
                }
                if ok && !emerg && !unlocked {
                    rec.viol("C08_early_withdraw", format!("normal withdrawal of {:?} accepted at {}", t, c.pre.now));
                }
                if ok {
                    if c.post.pos(id).is_some() {
                        rec.viol("C08_withdrawn_position_remains", format!("{:?}", c.post.pos(id)));
                    }
                    let amt = t.lp_asset.amount.u128() as i128;
                    if c.delta(FM, &t.lp_asset.denom) != -amt {
                        rec.viol("C08_withdraw_custody", format!("farm manager delta {} for a position of {amt}", c.delta(FM, &t.lp_asset.denom)));
                    }
                    if (!emerg || unlocked) && c.delta(*u, &t.lp_asset.denom) != amt {
                        rec.viol("C08_withdraw_not_in_full", format!("owner received {} of a position of {amt}", c.delta(*u, &t.lp_asset.denom)));
                    }
                }
            }
            if ok {
                others_untouched(c, &[id.clone()].into_iter().collect(), rec);
            }
        }
        _ => {
            if ok {
                others_untouched(c, &BTreeSet::new(), rec);
            }
        }
    }
}

// ------------------------------------------------------------------------------------------ C10
pub fn c10_weights(c: &FuCtx, rec: &mut Rec) {
    if !c.out.is_ok() {
        return;
    }
    rec.validated += 1;
    let post = c.post;
    for li in 0..post.lps.len() {
        for e in 0..=post.cur + 1 {
            let total = post.weight(FM, li, e);
            let sum: u128 = (0..N_USERS).map(|u| post.weight(u, li, e)).sum::<u128>() + post.weight(PM, li, e);
            if total < sum {
                rec.viol("C10_total_lt_sum_users", format!("lp{li} epoch {e}: total {total} < sum of users {sum} ({:?})", (0..N_USERS).map(|u| post.weight(u, li, e)).collect::<Vec<_>>()));
            } else if total != sum && !c.g1.pieces.contains(&li) && e == post.cur + 1 {
                rec.viol("C10_total_ne_sum_users", format!("lp{li} epoch {e}: total {total} != sum of users {sum} although no position was partially closed or topped up"));
            }
        }
        for u in 0..N_USERS {
            let has_open = post.positions.iter().any(|p| p.open && p.receiver == c.w.users[u] && p.lp_asset.denom == post.lps[li]);
            if !has_open && post.wraw.contains_key(&(u, li)) {
                rec.viol("C10_weight_without_open_position", format!("user {u} lp{li}: entries {:?}", post.wraw.get(&(u, li))));
            }
            // whoever holds an open position has weight bookkeeping for that LP (an entry may round to 0 after piecewise closes,
            // but it cannot be absent)
            if has_open && !post.wraw.contains_key(&(u, li)) {
                rec.viol("C10_open_position_without_weight_entry", format!("user {u} lp{li} holds an open position but has no weight entry at all (after {:?})", c.op));
            }
            // a position's weight is at least its amount: while nothing was closed partially or topped up in pieces on
            // this LP (the statement's own carve-out for the non-additive per-user bookkeeping) the user's weight
            // covers the amounts of their open positions
            if has_open && !c.g1.pieces.contains(&li) {
                let open_sum: u128 = post.positions.iter().filter(|p| p.open && p.receiver == c.w.users[u] && p.lp_asset.denom == post.lps[li]).map(|p| p.lp_asset.amount.u128()).sum();
                if post.weight(u, li, post.cur + 1) < open_sum {
                    rec.viol("C10_weight_below_open_amount", format!("user {u} lp{li}: weight {} < open LP {open_sum}", post.weight(u, li, post.cur + 1)));
                }
            }
        }
        // contracts never hold positions: the pool manager (the only delegate) must not end up with weight of its own
        if post.wraw.contains_key(&(PM, li)) {
            rec.viol("C10_weight_without_open_position", format!("the pool manager address holds weight in lp{li}: {:?}", post.wraw.get(&(PM, li))));
        }
        // changes take effect from the epoch after the operation: nothing at or before the current epoch moves
        if !matches!(c.op, FuOp::Advance { .. } | FuOp::Base) {
            for e in 0..=c.pre.cur {
                if c.pre.weight(FM, li, e) != post.weight(FM, li, e) {
                    rec.viol("C10_retroactive_total", format!("lp{li} epoch {e}: total {} -> {} by {:?} in epoch {}", c.pre.weight(FM, li, e), post.weight(FM, li, e), c.op, c.pre.cur));
                }
            }
            for u in 0..N_USERS {
                let cursor = c.g1.last_claimed.get(&u).copied().unwrap_or(0);
                let still = post.positions.iter().any(|p| p.open && p.receiver == c.w.users[u] && p.lp_asset.denom == post.lps[li]);
                if !still {
                    continue;
                }
                for e in cursor.max(c.g0.last_claimed.get(&u).copied().unwrap_or(0))..=c.pre.cur {
                    // weights in effect at already-started epochs that can still be claimed never change
                    let had = c.pre.wraw.get(&(u, li)).map_or(false, |m| m.range(..=e).next_back().is_some());
                    if had && c.pre.weight(u, li, e) != post.weight(u, li, e) {
                        rec.viol("C10_retroactive_user_weight", format!("user {u} lp{li} epoch {e}: {} -> {} by {:?} in epoch {}", c.pre.weight(u, li, e), post.weight(u, li, e), c.op, c.pre.cur));
                    }
                }
            }
        }
    }
}

// ------------------------------------------------------------------------------------------ C11
fn farm_expired_by_statement(f: &fm::Farm, now: u64, expiration: u64) -> bool {
    let ending_at = GENESIS + (f.preliminary_end_epoch + 1) * DAY;
    f.farm_asset.amount.u128().saturating_sub(f.claimed_amount.u128()) == 0 || ending_at + expiration < now
}

pub fn c11_farms(c: &FuCtx, rec: &mut Rec) {
    rejected_unchanged(c, rec, "C11_rejected_changed_state");
    let ok = c.out.is_ok();
    let w = c.w;
    let cfg = c.pre.cfg.as_ref().unwrap();
    let fee = &cfg.create_farm_fee;
    let lpd = &c.pre.lps;
    // a farm's identity is (identifier, start epoch, owner): an expired farm may be auto-closed and its
    // identifier reused by the farm created in the same message
    let same = |a: &fm::Farm, b: &fm::Farm| a.identifier == b.identifier && a.start_epoch == b.start_epoch && a.owner == b.owner && a.lp_denom == b.lp_denom;
    let gone: Vec<&fm::Farm> = c.pre.farms.iter().filter(|f| !c.post.farms.iter().any(|g| same(f, g))).collect();
    let new: Vec<&fm::Farm> = c.post.farms.iter().filter(|f| !c.pre.farms.iter().any(|g| same(f, g))).collect();
    // all denoms of interest
    let mut denoms: BTreeSet<String> = BTreeSet::new();
    for b in c.pre.bal.iter().chain(c.post.bal.iter()) {
        denoms.extend(b.keys().cloned());
    }
    // expected balance deltas per (account, denom) accumulated below
    let mut exp: BTreeMap<(usize, String), i128> = BTreeMap::new();
    let mut add = |acc: usize, d: &str, x: i128| *exp.entry((acc, d.to_string())).or_default() += x;
    let mut judged = false;
    match c.op {
        FuOp::CreateFarm { u, lp, reward, funds, start, end, .. } => {
            let rden = resolve(lpd, &reward.0);
            let funds: BTreeMap<String, u128> = funds.iter().map(|(d, a)| (resolve(lpd, d), *a)).collect();
            let funds_ok = if fee.amount.is_zero() {
                funds.len() == 1 && funds.get(&rden) == Some(&reward.1)
            } else if fee.denom != rden {
                funds.len() == 2 && funds.get(&rden) == Some(&reward.1) && funds.get(&fee.denom).map_or(false, |a| *a >= fee.amount.u128())
            } else {
                funds.len() == 1 && funds.get(&rden) == Some(&(reward.1 + fee.amount.u128()))
            };
            if !funds_ok && ok {
                rec.viol("C11_create_wrong_funds_accepted", format!("fee {fee}, reward {} {rden}, funds {:?} accepted", reward.1, funds));
            }
            // a creation the statement allows must be possible (the alphabet only uses valid epochs/ids/amounts for these shapes)
            if funds_ok && !ok {
                let live_after: usize = c.pre.farms.iter().filter(|f| f.lp_denom == lpd[*lp] && !farm_expired_by_statement(f, c.pre.now, cfg.farm_expiration_time)).count();
                let id_clash = matches!(c.op, FuOp::CreateFarm { id: Some(i), .. } if c.pre.farm(&format!("m-{i}")).is_some());
                let epochs_ok = start.map_or(cfg.max_farm_epoch_buffer >= 1, |s| s > c.pre.cur && s <= c.pre.cur + cfg.max_farm_epoch_buffer as u64) && end.map_or(true, |e| e > start.unwrap_or(c.pre.cur + 1));
                if live_after < cfg.max_concurrent_farms as usize && !id_clash && epochs_ok && reward.1 >= 1000 {
                    rec.viol_kf("C11_valid_creation_refused", format!("fee={fee} reward_denom_is_fee_denom={} funds_coins={}", fee.denom == rden, funds.len()), format!("fee {fee}, reward {} {rden}, funds {:?} refused: {}", reward.1, funds, c.out.err_text()));
                }
            }
            if ok {
                judged = true;
                rec.validated += 1;
                // creator pays reward + fee (overpayment refunded), fee collector gets the fee, farm manager keeps the reward
                add(*u, &rden, -(reward.1 as i128));
                add(FM, &rden, reward.1 as i128);
                if !fee.amount.is_zero() {
                    add(*u, &fee.denom, -(fee.amount.u128() as i128));
                    add(FC, &fee.denom, fee.amount.u128() as i128);
                }
                if new.len() != 1 {
                    rec.viol("C11_create_effect", format!("{} new farms", new.len()));
                } else {
                    let f = new[0];
                    let span = (f.preliminary_end_epoch - f.start_epoch) as u128;
                    if f.owner != w.users[*u] || f.farm_asset.amount.u128() != reward.1 || f.farm_asset.denom != rden || !f.claimed_amount.is_zero() || f.lp_denom != lpd[*lp] || f.emission_rate.u128() * span > reward.1 || f.emission_rate.is_zero() || f.start_epoch <= c.pre.cur {
                        rec.viol("C11_create_effect", format!("{:?} produced {:?}", c.op, f));
                    }
                    if start.map_or(false, |s| s != f.start_epoch) || end.map_or(false, |e| e != f.preliminary_end_epoch) {
                        rec.viol("C11_create_effect", format!("requested epochs {start:?}..{end:?}, farm {:?}", f));
                    }
                }
                // automatic close of expired farms on this LP
                for g in &gone {
                    if !farm_expired_by_statement(g, c.pre.now, cfg.farm_expiration_time) || g.lp_denom != lpd[*lp] {
                        rec.viol("C11_unexpired_farm_auto_closed", format!("{:?} removed by {:?} at {}", g, c.op, c.pre.now));
                    }
                    let rem = g.farm_asset.amount.u128().saturating_sub(g.claimed_amount.u128()) as i128;
                    add(acc_index(w, &g.owner).unwrap(), &g.farm_asset.denom, rem);
                    add(FM, &g.farm_asset.denom, -rem);
                }
            }
        }
        FuOp::ExpandFarm { u, id, reward, funds, .. } => {
            let rden = resolve(lpd, &reward.0);
            let t = c.pre.farm(id);
            let allowed = t.map_or(false, |t| t.owner == w.users[*u] && c.pre.cur < t.preliminary_end_epoch);
            if !allowed && ok {
                rec.viol("C11_unauthorised_or_late_expand", format!("{:?} accepted on {:?} in epoch {}", c.op, t, c.pre.cur));
            }
            if ok {
                judged = true;
                rec.validated += 1;
                let attached: u128 = funds.iter().map(|f| f.1).sum();
                add(*u, &rden, -(attached as i128));
                add(FM, &rden, attached as i128);
                if let Some(t) = t {
                    let mut want = t.clone();
                    want.farm_asset.amount += cosmwasm_std::Uint128::new(attached);
                    want.preliminary_end_epoch += (attached / t.emission_rate.u128()) as u64;
                    if c.post.farm(id) != Some(&want) || attached % t.emission_rate.u128() != 0 {
                        rec.viol("C11_expand_effect", format!("{:?} + {attached} -> {:?}", t, c.post.farm(id)));
                    }
                }
                if !gone.is_empty() || !new.is_empty() {
                    rec.viol("C11_expand_effect", "farm set changed".into());
                }
            }
        }
        FuOp::CloseFarm { u, id } => {
            let t = c.pre.farm(id);
            let allowed = t.map_or(false, |t| t.owner == w.users[*u] || *u == OWNER);
            if !allowed && ok {
                rec.viol("C11_unauthorised_close", format!("{:?} accepted on {:?}", c.op, t));
            }
            if allowed && !ok {
                rec.viol("C11_close_refused", format!("{:?}: {}", c.op, c.out.err_text()));
            }
            if ok {
                judged = true;
                rec.validated += 1;
                if let Some(t) = t {
                    if gone.len() != 1 || gone[0].identifier != *id || !new.is_empty() {
                        rec.viol("C11_close_effect", format!("gone {:?}", gone.iter().map(|g| &g.identifier).collect::<Vec<_>>()));
                    }
                    let rem = t.farm_asset.amount.u128().saturating_sub(t.claimed_amount.u128()) as i128;
                    add(acc_index(w, &t.owner).unwrap(), &t.farm_asset.denom, rem);
                    add(FM, &t.farm_asset.denom, -rem);
                }
            }
        }
        _ => {
            // no other operation creates, removes or re-parameterises a farm (claims move claimed_amount only)
            if ok {
                if !gone.is_empty() || !new.is_empty() {
                    rec.viol("C11_farm_set_changed", format!("{:?}: gone {:?} new {:?}", c.op, gone, new));
                }
                for f in &c.pre.farms {
                    if let Some(g) = c.post.farm(&f.identifier) {
                        let mut f2 = f.clone();
                        f2.claimed_amount = g.claimed_amount;
                        if &f2 != g || (g.claimed_amount != f.claimed_amount && !matches!(c.op, FuOp::Claim { .. })) {
                            rec.viol("C11_farm_mutated", format!("{:?}: {:?} -> {:?}", c.op, f, g));
                        }
                    }
                }
            }
        }
    }
    if judged {
        for acc in 0..N_ACC {
            for d in &denoms {
                let want = exp.get(&(acc, d.clone())).copied().unwrap_or(0);
                if c.delta(acc, d) != want {
                    rec.viol("C11_funds", format!("{:?}: account #{acc} {d} moved by {} expected {want}", c.op, c.delta(acc, d)));
                }
            }
        }
        // limit of unexpired farms per LP token
        for lp in lpd {
            let live = c.post.farms.iter().filter(|f| &f.lp_denom == lp && !farm_expired_by_statement(f, c.post.now, cfg.farm_expiration_time)).count();
            if live > c.post.cfg.as_ref().unwrap().max_concurrent_farms as usize {
                rec.viol("C11_too_many_farms", format!("{lp}: {live} unexpired farms"));
            }
        }
    }
}

// ------------------------------------------------------------------------------------------ jobs
pub fn jobs_c05(tier: Tier) -> Vec<Job> {
    let mut full = FuChecker::new("c05-fu-full", vec!["F0", "F2", "F3", "F5", "F8", "F10"], FAlpha::Full, vec![c05_custody]);
    full.reward_denoms = vec!["uusdc", "lp1"];
    full.state_oracles = vec![c05_drain];
    let mut core = FuChecker::new("c05-fu-reward", vec!["F3", "F4"], FAlpha::Reward, vec![c05_custody]);
    core.reward_denoms = vec!["lp1"];
    core.state_oracles = vec![c05_drain];
    let mut v = vec![explore_job(full, tier.pick(2, 3), Caps::default()), explore_job(core, tier.pick(3, 4), Caps::default())];
    // more farms on one LP token than one page of the farm listing: claims, closes and withdrawals keep custody
    let mut many = FuChecker::new("c05-fu-manyfarms", vec!["F6"], FAlpha::RewardCore, vec![c05_custody]);
    many.max_farms = 12;
    many.state_oracles = vec![c05_drain];
    v.push(explore_job(many, tier.pick(2, 3), Caps::default()));
    // the epoch manager's owner restarted the epoch numbering in the middle of the history (custody inequality only: what else
    // the farm manager should do across a restart is outside the listed properties)
    let restart = FuChecker::new("c05-fu-epoch-restart", vec!["F19"], FAlpha::RewardCore, vec![c05_custody]);
    v.push(explore_job(restart, tier.pick(2, 3), Caps::default()));
    // the pool manager was redeployed and the farm manager re-pointed at the new instance, whose pool of the same identifier
    // issues an LP token with the same symbol: old positions stay backed by the old token
    let mut redeployed = FuChecker::new("c05-fu-redeployed-pm", vec!["F21"], FAlpha::Positions, vec![c05_custody]);
    redeployed.state_oracles = vec![c05_drain];
    v.push(explore_job(redeployed, tier.pick(3, 4), Caps::default()));
    // farm funding under the other fee configurations (zero fee, fee in the reward denom): every fund shape of the farm alphabet
    for (i, fee) in [("uusdc", 0u128), ("uom", 0), ("uusdc", 1000)].into_iter().enumerate() {
        let mut c = FuChecker::new(&format!("c05-fu-farms-feecfg{}", i + 1), vec!["F0", "F2"], FAlpha::Farms, vec![c05_custody]);
        c.farm_fee = (fee.0.to_string(), fee.1);
        c.state_oracles = vec![c05_drain];
        v.push(explore_job(c, tier.pick(2, 4), Caps::default()));
    }
    v
}
pub fn jobs_c06(tier: Tier) -> Vec<Job> {
    let mut r = FuChecker::new("c06-fu-reward", vec!["F1", "F2", "F3", "F7", "F9", "F11", "F14", "F16", "F17"], FAlpha::Reward, vec![c06_rewards]);
    r.state_oracles = vec![c06_claimable];
    let mut core = FuChecker::new("c06-fu-core", vec!["F2", "F3", "F13", "F22"], FAlpha::RewardCore, vec![c06_rewards]);
    core.state_oracles = vec![c06_claimable];
    let mut many = FuChecker::new("c06-fu-manyfarms", vec!["F6"], FAlpha::RewardCore, vec![c06_rewards]);
    many.max_farms = 12;
    many.state_oracles = vec![c06_claimable];
    vec![explore_job(r, tier.pick(3, 4), Caps::default()), explore_job(core, tier.pick(5, 7), Caps::default()), explore_job(many, tier.pick(2, 4), Caps::default())]
}
pub fn jobs_c07(tier: Tier) -> Vec<Job> {
    let r = FuChecker::new("c07-fu-reward", vec!["F1", "F2", "F3", "F7", "F9", "F11", "F14", "F16", "F17", "F18", "F20"], FAlpha::Reward, vec![c07_share, fu_defaults]);
    let mut d = FuChecker::new("c07-fu-diamond", vec!["F2", "F3", "F13", "F22"], FAlpha::RewardCore, vec![c07_share]);
    d.state_oracles = vec![c07_diamond];
    let mut many = FuChecker::new("c07-fu-manyfarms", vec!["F6"], FAlpha::RewardCore, vec![c07_share, c06_rewards]);
    many.max_farms = 12;
    vec![explore_job(r, tier.pick(3, 4), Caps::default()), explore_job(d, tier.pick(4, 5), Caps::default()), explore_job(many, tier.pick(2, 4), Caps::default())]
}
pub fn jobs_c08(tier: Tier) -> Vec<Job> {
    let full = FuChecker::new("c08-fu-full", vec!["F0", "F2", "F4", "F5"], FAlpha::Full, vec![c08_positions]);
    let p = FuChecker::new("c08-fu-positions", vec!["F1", "F4", "F5", "F7"], FAlpha::Positions, vec![c08_positions, fu_defaults]);
    let redeployed = FuChecker::new("c08-fu-redeployed-pm", vec!["F21"], FAlpha::Positions, vec![c08_positions]);
    vec![explore_job(full, tier.pick(2, 3), Caps::default()), explore_job(p, tier.pick(3, 4), Caps::default()), explore_job(redeployed, tier.pick(3, 4), Caps::default())]
}
pub fn jobs_c10_explore(tier: Tier) -> Vec<Job> {
    let p = FuChecker::new("c10-fu-positions", vec!["F0", "F1", "F4", "F7"], FAlpha::Positions, vec![c10_weights]);
    let r = FuChecker::new("c10-fu-reward", vec!["F2", "F3"], FAlpha::Reward, vec![c10_weights]);
    vec![explore_job(p, tier.pick(3, 4), Caps::default()), explore_job(r, tier.pick(3, 4), Caps::default())]
}
pub fn jobs_c11(tier: Tier) -> Vec<Job> {
    let mut v = vec![];
    for (i, (fee, rd)) in [(("uom", 1000u128), "uusdc"), (("uom", 0u128), "uusdc"), (("uusdc", 0u128), "uusdc"), (("uusdc", 1000u128), "uusdc")].into_iter().enumerate() {
        let mut c = FuChecker::new(&format!("c11-fu-farms-cfg{i}"), vec!["F0", "F2", "F8", "F15"], FAlpha::Farms, vec![c11_farms]);
        c.farm_fee = (fee.0.to_string(), fee.1);
        c.reward_denoms = vec![rd];
        v.push(explore_job(c, tier.pick(3, 5), Caps::default()));
    }
    let full = FuChecker::new("c11-fu-full", vec!["F2", "F3", "F12"], FAlpha::Full, vec![c11_farms]);
    v.push(explore_job(full, tier.pick(2, 3), Caps::default()));
    // eleven farms on one LP token under a limit of twelve: the twelfth creation is accepted, the thirteenth is not
    let mut many = FuChecker::new("c11-fu-manyfarms", vec!["F6"], FAlpha::Farms, vec![c11_farms]);
    many.max_farms = 12;
    v.push(explore_job(many, tier.pick(2, 3), Caps::default()));
    v
}
