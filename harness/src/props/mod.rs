use crate::report::*;

pub mod c01;
pub mod c02;
pub mod c03;
pub mod c04;
pub mod c09;
pub mod c12;
pub mod c13;
pub mod c14;
pub mod c15;
pub mod c16;
pub mod c17;
pub mod c18;
pub mod c19;
pub mod c20;
pub mod farm;

pub fn jobs(prop: &str, tier: Tier) -> Option<(&'static str, Vec<Job>)> {
    Some(match prop {
        "C01" => ("model_checking", c01::jobs(tier)),
        "C02" => ("model_checking", c02::jobs(tier)),
        "C03" => ("model_checking", c03::jobs(tier)),
        "C04" => ("model_checking", c04::jobs(tier)),
        "C05" => ("model_checking", farm::jobs_c05(tier)),
        "C06" => ("model_checking", farm::jobs_c06(tier)),
        "C07" => ("model_checking", farm::jobs_c07(tier)),
        "C08" => ("model_checking", farm::jobs_c08(tier)),
        "C09" => ("model_checking", c09::jobs_c09(tier)),
        "C10" => ("model_checking", {
            let mut j = farm::jobs_c10_explore(tier);
            j.extend(c09::jobs_c10_grid(tier));
            j
        }),
        "C11" => ("model_checking", farm::jobs_c11(tier)),
        "C12" => ("model_checking", c12::jobs(tier)),
        "C13" => ("model_checking", c13::jobs(tier)),
        "C14" => ("model_checking", c14::jobs(tier)),
        "C15" => ("model_checking", c15::jobs(tier)),
        "C16" => ("model_checking", c16::jobs(tier)),
        "C17" => ("model_checking", c17::jobs(tier)),
        "C18" => ("model_checking", c18::jobs(tier)),
        "C19" => ("model_checking", c19::jobs(tier)),
        "C20" => ("fault_enumeration", c20::jobs(tier)),
        _ => return None,
    })
}

pub fn configure(_prop: &str, _rep: &mut Report) {}
