use crate::report::*;

pub mod c01;
pub mod c18;

pub fn jobs(prop: &str, tier: Tier) -> Option<(&'static str, Vec<Job>)> {
    Some(match prop {
        "C01" => ("model_checking", c01::jobs(tier)),
        "C18" => ("model_checking", c18::jobs(tier)),
        _ => return None,
    })
}

pub fn configure(_prop: &str, _rep: &mut Report) {}
