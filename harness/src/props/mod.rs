use crate::report::*;

pub mod c01;
pub mod c02;
pub mod c03;
pub mod c04;
pub mod c09;
pub mod c12;
pub mod c13;
pub mod c14;
pub mod c15;
pub mod c16;
pub mod c17;
pub mod c18;
pub mod c19;
pub mod c20;
pub mod farm;

pub fn jobs(prop: &str, tier: Tier) -> Option<(&'static str, Vec<Job>)> {
    Some(match prop {
        "C01" => ("model_checking", c01::jobs(tier)),
        "C02" => ("model_checking", c02::jobs(tier)),
        "C03" => ("model_checking", c03::jobs(tier)),
        "C04" => ("model_checking", c04::jobs(tier)),
        "C05" => ("model_checking", farm::jobs_c05(tier)),
        "C06" => ("model_checking", farm::jobs_c06(tier)),
        "C07" => ("model_checking", farm::jobs_c07(tier)),
        "C08" => ("model_checking", farm::jobs_c08(tier)),
        "C09" => ("model_checking", c09::jobs_c09(tier)),
        "C10" => ("model_checking", {
            let mut j = farm::jobs_c10_explore(tier);
            j.extend(c09::jobs_c10_grid(tier));
            j
        }),
        "C11" => ("model_checking", farm::jobs_c11(tier)),
        "C12" => ("model_checking", c12::jobs(tier)),
        "C13" => ("model_checking", c13::jobs(tier)),
        "C14" => ("model_checking", c14::jobs(tier)),
        "C15" => ("model_checking", c15::jobs(tier)),
        "C16" => ("model_checking", c16::jobs(tier)),
        "C17" => ("model_checking", c17::jobs(tier)),
        "C18" => ("model_checking", c18::jobs(tier)),
        "C19" => ("model_checking", c19::jobs(tier)),
        "C20" => ("fault_enumeration", c20::jobs(tier)),
        _ => return None,
    })
}

/// vacuity guards: a run in which these never happened explored nothing relevant and is a machinery error
pub fn configure(prop: &str, rep: &mut Report) {
    let req: &[(&str, &str)] = match prop {
        "C01" => &[("c01-pu-full", "Swap:ok"), ("c01-pu-full", "Route:ok"), ("c01-pu-full", "Provide:ok"), ("c01-pu-full", "Withdraw:ok"), ("c01-pu-full", "CreatePool:ok"), ("c01-pu-full", "Provide:refused")],
        "C02" => &[("c02-pu-full", "c02_provide_edges"), ("c02-pu-full", "c02_withdraw_edges"), ("c02-grid", "Provide:ok"), ("c02-grid", "Withdraw:ok")],
        "C03" => &[("c03-pu-full", "c03_swap_edges_judged"), ("c03-swap-chains", "c03_swap_edges_judged")],
        "C04" => &[("c04-pu-full", "c04_swap_edges"), ("c04-pu-full", "c04_route_edges")],
        "C05" => &[("c05-fu-full", "c05_drains"), ("c05-fu-full", "WithdrawPos:ok"), ("c05-fu-full", "Claim:ok"), ("c05-fu-full", "CloseFarm:ok")],
        "C06" => &[("c06-fu-reward", "c06_claims_that_paid"), ("c06-fu-reward", "c06_hypothetical_claims"), ("c06-fu-core", "c06_claims_that_paid")],
        "C07" => &[("c07-fu-reward", "Claim:ok"), ("c07-fu-diamond", "c07_diamonds")],
        "C08" => &[("c08-fu-positions", "WithdrawPos:ok"), ("c08-fu-positions", "ClosePos:ok"), ("c08-fu-positions", "WithdrawPos:refused"), ("c08-fu-full", "ProvideLock:ok")],
        "C09" => &[("c09-penalty-grid", "EmergencyWithdraw:ok")],
        "C10" => &[("c10-fu-positions", "ClosePos:ok"), ("c10-weight-curve-grid", "c10_weight_evaluations")],
        "C11" => &[("c11-fu-farms-cfg0", "CreateFarm:ok"), ("c11-fu-farms-cfg0", "CloseFarm:ok"), ("c11-fu-farms-cfg0", "ExpandFarm:ok"), ("c11-fu-farms-cfg1", "CreateFarm:ok"), ("c11-fu-farms-cfg2", "CreateFarm:ok"), ("c11-fu-farms-cfg3", "CreateFarm:ok")],
        "C12" => &[("c12-pu-full", "c12_swap_edges"), ("c12-pu-full", "c12_route_edges"), ("c12-reverse-grid", "ReverseSimulation:ok")],
        "C13" => &[("c13-protection-grid", "c13_cp_must_accept"), ("c13-protection-grid", "c13_cp_must_reject"), ("c13-protection-grid", "c13_dep_must_accept"), ("c13-protection-grid", "c13_dep_must_reject"), ("c13-protection-grid", "c13_ss_swaps")],
        "C14" => &[("c14-pu-single", "c14_twin_compared"), ("c14-pu-single", "c14_both_refused"), ("c14-pu-single", "c20_injected_runs")],
        "C15" => &[("c15-ownership-pool-manager", "c15_matrix_cells"), ("c15-ownership-farm-manager", "c15_matrix_cells"), ("c15-ownership-epoch-manager", "c15_matrix_cells"), ("c15-ownership-fee-collector", "Own:ok")],
        "C16" => &[("c16-creation-grid", "c16_must_accept"), ("c16-creation-grid", "c16_must_reject")],
        "C17" => &[("c17-pu-switches", "c17_must_block"), ("c17-pu-switches", "c17_must_equal_twin")],
        "C18" => &[("c18-grid", "CurrentEpoch:ok"), ("c18-grid", "CurrentEpoch:refused"), ("c18-grid", "Epoch:refused"), ("c18-grid", "Instantiate:rejected")],
        "C19" => &[("c19-stableswap-grid", "c19_quotes"), ("c19-stableswap-grid", "c19_mint_d_checks")],
        "C20" => &[("c20-pu-full", "c20_injected_runs"), ("c20-fu-full", "c20_tolerated_failures"), ("c20-fu-farms", "c20_tolerated_failures")],
        _ => &[],
    };
    for (job, c) in req {
        rep.require_counter(job, c);
    }
}
