//! PU — the pool universe (DESIGN.md §3): alphabet, seeds, observation and application of pool-manager
//! operations through the real messages. Property oracles live in props/*.rs and consume `PuCtx`.
use crate::engine::*;
use crate::world::*;
use cosmwasm_std::{coin, Addr, Coin, Decimal, Uint128};
use mantra_dex_std::farm_manager as fm;
use mantra_dex_std::fee::{Fee, PoolFee};
use mantra_dex_std::pool_manager as pm;
use serde::{Deserialize, Serialize};
use std::collections::BTreeMap;

pub const DENOMS: [&str; 5] = ["uom", "uusd", "uusdc", "ausdy", "uweth"];
pub const N_USERS: usize = 3; // 0 = owner, 1 = A, 2 = B
pub const OWNER: usize = 0;
pub const A: usize = 1;
pub const B: usize = 2;
pub const PM: usize = 3;
pub const FM: usize = 4;
pub const FC: usize = 5;

/// fee shares in basis points (1/10000)
#[derive(Clone, Debug, Serialize, Deserialize, PartialEq, Eq, Hash)]
pub struct FeeSpec {
    pub p: u64,
    pub s: u64,
    pub b: u64,
    pub x: Vec<u64>,
}
impl FeeSpec {
    pub fn to_pool_fee(&self) -> PoolFee {
        let f = |bps: u64| Fee { share: Decimal::from_ratio(bps, 10_000u64) };
        PoolFee { protocol_fee: f(self.p), swap_fee: f(self.s), burn_fee: f(self.b), extra_fees: self.x.iter().map(|x| f(*x)).collect() }
    }
}
pub fn std_fees() -> FeeSpec {
    FeeSpec { p: 10, s: 20, b: 10, x: vec![10] }
}
pub fn zero_fees() -> FeeSpec {
    FeeSpec { p: 0, s: 0, b: 0, x: vec![] }
}
pub fn cap_fees() -> FeeSpec {
    FeeSpec { p: 500, s: 500, b: 500, x: vec![250, 250] }
}

/// a pool whose only fee is the burn fee (1 %): every hop through it charges zero swap and protocol fees
pub fn burn_only_fees() -> FeeSpec {
    FeeSpec { p: 0, s: 0, b: 100, x: vec![] }
}

type Funds = Vec<(String, u128)>;

#[derive(Clone, Debug, Serialize, Deserialize, PartialEq)]
pub enum PuOp {
    CreatePool { u: usize, denoms: Vec<String>, decimals: Vec<u8>, fees: FeeSpec, amp: Option<u64>, id: Option<String>, funds: Funds },
    Provide { u: usize, pool: String, funds: Funds, lock: Option<u64>, lock_id: Option<String>, recv: Option<usize>, liq_slip: Option<u64>, swap_slip: Option<u64> },
    Withdraw { u: usize, pool: String, funds: Funds },
    Swap { u: usize, pool: String, offer: Funds, ask: String, slip: Option<u64>, belief: Option<(u128, u128)>, recv: Option<usize> },
    Route { u: usize, hops: Vec<(String, String, String)>, amt: u128, min: Option<u128>, recv: Option<usize>, slip: Option<u64> },
    Donate { u: usize, denom: String, amt: u128 },
    Toggle { u: usize, pool: String, w: Option<bool>, d: Option<bool>, s: Option<bool> },
    SetPoolFee { u: usize, denom: String, amt: u128 },
    /// one UpdateConfig message carrying both a pool creation fee (uusd) and a feature toggle
    ToggleAndFee { u: usize, pool: String, w: Option<bool>, d: Option<bool>, s: Option<bool>, amt: u128 },
}

#[derive(Clone, Debug, Default, PartialEq)]
pub struct PuObs {
    pub pools: Vec<pm::PoolInfoResponse>,
    /// per account (users, PM, FM, FC): denom -> balance (non-zero only)
    pub bal: Vec<BTreeMap<String, u128>>,
    pub supply: BTreeMap<String, u128>,
    pub positions: Vec<fm::Position>,
    pub cfg: Option<pm::Config>,
}
impl PuObs {
    pub fn b(&self, acc: usize, denom: &str) -> u128 {
        self.bal[acc].get(denom).copied().unwrap_or(0)
    }
    pub fn pool(&self, id: &str) -> Option<&pm::PoolInfoResponse> {
        self.pools.iter().find(|p| p.pool_info.pool_identifier == id)
    }
    pub fn reserve(&self, id: &str, denom: &str) -> u128 {
        self.pool(id).and_then(|p| p.pool_info.assets.iter().find(|c| c.denom == denom)).map(|c| c.amount.u128()).unwrap_or(0)
    }
    pub fn sup(&self, denom: &str) -> u128 {
        self.supply.get(denom).copied().unwrap_or(0)
    }
}

#[derive(Clone, Default, Debug, PartialEq, Eq, Hash)]
pub struct PuGhost {
    pub donated: BTreeMap<String, u128>,
    pub odd: BTreeMap<String, u128>,
    /// LP locked in the pool manager as observed at each pool's first deposit
    pub locked: BTreeMap<String, u128>,
    /// immutable descriptor of each pool as observed at creation
    pub desc: BTreeMap<String, String>,
}

pub fn accounts(w: &World) -> Vec<Addr> {
    let mut v: Vec<Addr> = w.users[..N_USERS].to_vec();
    v.push(w.pool_manager.clone());
    v.push(w.farm_manager.clone());
    v.push(w.fee_collector.clone());
    v
}

pub fn observe(w: &World) -> PuObs {
    let pools: pm::PoolsResponse = w.query(&w.pool_manager, &pm::QueryMsg::Pools { pool_identifier: None, start_after: None, limit: Some(100) }).expect("MACHINERY: Pools query");
    let accs = accounts(w);
    let bal: Vec<BTreeMap<String, u128>> = accs.iter().map(|a| w.all_balances(a).into_iter().map(|c| (c.denom, c.amount.u128())).collect()).collect();
    let mut supply = BTreeMap::new();
    for d in DENOMS.iter().map(|s| s.to_string()).chain(pools.pools.iter().map(|p| p.pool_info.lp_denom.clone())) {
        let s = w.supply(&d);
        supply.insert(d, s);
    }
    let mut positions = vec![];
    for u in [A, B, OWNER] {
        if let Ok(r) = w.query::<fm::PositionsResponse, _>(&w.farm_manager, &fm::QueryMsg::Positions { filter_by: Some(fm::PositionsBy::Receiver(w.users[u].to_string())), open_state: None, start_after: None, limit: Some(100) }) {
            positions.extend(r.positions);
        }
    }
    let cfg = w.query::<pm::Config, _>(&w.pool_manager, &pm::QueryMsg::Config {}).ok();
    PuObs { pools: pools.pools, bal, supply, positions, cfg }
}

fn coins(f: &Funds) -> Vec<Coin> {
    f.iter().map(|(d, a)| coin(*a, d)).collect()
}
fn bps(x: u64) -> Decimal {
    Decimal::from_ratio(x, 10_000u64)
}
pub fn ops_of(hops: &[(String, String, String)]) -> Vec<pm::SwapOperation> {
    hops.iter().map(|(i, o, p)| pm::SwapOperation::MantraSwap { token_in_denom: i.clone(), token_out_denom: o.clone(), pool_identifier: p.clone() }).collect()
}

pub fn apply(w: &mut World, op: &PuOp) -> Outcome {
    let pmaddr = w.pool_manager.clone();
    let user = |w: &World, u: usize| w.users[u].clone();
    match op {
        PuOp::CreatePool { u, denoms, decimals, fees, amp, id, funds } => w.exec(
            &user(w, *u),
            &pmaddr,
            &pm::ExecuteMsg::CreatePool {
                asset_denoms: denoms.clone(),
                asset_decimals: decimals.clone(),
                pool_fees: fees.to_pool_fee(),
                pool_type: match amp {
                    Some(a) => pm::PoolType::StableSwap { amp: *a },
                    None => pm::PoolType::ConstantProduct,
                },
                pool_identifier: id.clone(),
            },
            &coins(funds),
        ),
        PuOp::Provide { u, pool, funds, lock, lock_id, recv, liq_slip, swap_slip } => w.exec(
            &user(w, *u),
            &pmaddr,
            &pm::ExecuteMsg::ProvideLiquidity {
                liquidity_max_slippage: liq_slip.map(bps),
                swap_max_slippage: swap_slip.map(bps),
                // index 99 stands for a string that is not a valid address (the contract falls back to the sender)
                receiver: recv.map(|r| if r == 99 { "mantra1notavalidaddress".to_string() } else { accounts(w)[r].to_string() }),
                pool_identifier: pool.clone(),
                unlocking_duration: *lock,
                lock_position_identifier: lock_id.clone(),
            },
            &coins(funds),
        ),
        PuOp::Withdraw { u, pool, funds } => w.exec(&user(w, *u), &pmaddr, &pm::ExecuteMsg::WithdrawLiquidity { pool_identifier: pool.clone() }, &coins(funds)),
        PuOp::Swap { u, pool, offer, ask, slip, belief, recv } => w.exec(
            &user(w, *u),
            &pmaddr,
            &pm::ExecuteMsg::Swap {
                ask_asset_denom: ask.clone(),
                belief_price: belief.map(|(n, d)| Decimal::from_ratio(n, d)),
                max_slippage: slip.map(bps),
                receiver: recv.map(|r| w.users[r].to_string()),
                pool_identifier: pool.clone(),
            },
            &coins(offer),
        ),
        PuOp::Route { u, hops, amt, min, recv, slip } => w.exec(
            &user(w, *u),
            &pmaddr,
            &pm::ExecuteMsg::ExecuteSwapOperations { operations: ops_of(hops), minimum_receive: min.map(Uint128::new), receiver: recv.map(|r| w.users[r].to_string()), max_slippage: slip.map(bps) },
            &[coin(*amt, &hops[0].0)],
        ),
        PuOp::Donate { u, denom, amt } => {
            let s = user(w, *u);
            w.bank_send(&s, &pmaddr, &[coin(*amt, denom)])
        }
        PuOp::Toggle { u, pool, w: wd, d, s } => w.exec(
            &user(w, *u),
            &pmaddr,
            &pm::ExecuteMsg::UpdateConfig {
                fee_collector_addr: None,
                farm_manager_addr: None,
                pool_creation_fee: None,
                feature_toggle: Some(pm::FeatureToggle { pool_identifier: pool.clone(), withdrawals_enabled: *wd, deposits_enabled: *d, swaps_enabled: *s }),
            },
            &[],
        ),
        PuOp::ToggleAndFee { u, pool, w: wd, d, s, amt } => w.exec(
            &user(w, *u),
            &pmaddr,
            &pm::ExecuteMsg::UpdateConfig {
                fee_collector_addr: None,
                farm_manager_addr: None,
                pool_creation_fee: Some(coin(*amt, "uusd")),
                feature_toggle: Some(pm::FeatureToggle { pool_identifier: pool.clone(), withdrawals_enabled: *wd, deposits_enabled: *d, swaps_enabled: *s }),
            },
            &[],
        ),
        PuOp::SetPoolFee { u, denom, amt } => w.exec(
            &user(w, *u),
            &pmaddr,
            &pm::ExecuteMsg::UpdateConfig { fee_collector_addr: None, farm_manager_addr: None, pool_creation_fee: Some(coin(*amt, denom)), feature_toggle: None },
            &[],
        ),
    }
}

/// Quotes taken on the pre-state immediately before an operation.
#[derive(Debug, Default)]
pub struct Quote {
    pub sim: Option<Result<pm::SimulationResponse, String>>,
    pub route: Option<Result<pm::SimulateSwapOperationsResponse, String>>,
}

pub fn quote(w: &World, op: &PuOp) -> Quote {
    let mut q = Quote::default();
    match op {
        PuOp::Swap { pool, offer, ask, .. } if offer.len() == 1 => {
            q.sim = Some(w.query(&w.pool_manager, &pm::QueryMsg::Simulation { offer_asset: coin(offer[0].1, &offer[0].0), ask_asset_denom: ask.clone(), pool_identifier: pool.clone() }));
        }
        PuOp::Route { hops, amt, .. } => {
            q.route = Some(w.query(&w.pool_manager, &pm::QueryMsg::SimulateSwapOperations { offer_amount: Uint128::new(*amt), operations: ops_of(hops) }));
        }
        PuOp::Provide { pool, funds, .. } if funds.len() == 1 => {
            if let Some(p) = observe_pool(w, pool) {
                if let Some(other) = p.pool_info.assets.iter().find(|c| c.denom != funds[0].0) {
                    q.sim = Some(w.query(&w.pool_manager, &pm::QueryMsg::Simulation { offer_asset: coin(funds[0].1 / 2, &funds[0].0), ask_asset_denom: other.denom.clone(), pool_identifier: pool.clone() }));
                }
            }
        }
        _ => {}
    }
    q
}

pub fn observe_pool(w: &World, id: &str) -> Option<pm::PoolInfoResponse> {
    w.query::<pm::PoolsResponse, _>(&w.pool_manager, &pm::QueryMsg::Pools { pool_identifier: Some(id.to_string()), start_after: None, limit: None }).ok().and_then(|r| r.pools.into_iter().next())
}

pub struct PuCtx<'a> {
    pub w: &'a World,
    pub op: &'a PuOp,
    pub pre: &'a PuObs,
    pub post: &'a PuObs,
    pub out: &'a Outcome,
    pub g0: &'a PuGhost,
    pub g1: &'a PuGhost,
    pub quote: &'a Quote,
    pub s0: &'a Snapshot,
    pub storage_unchanged: bool,
    /// single-side buffer key present in raw storage after the message
    pub buffer_present: bool,
}
impl PuCtx<'_> {
    pub fn delta(&self, acc: usize, denom: &str) -> i128 {
        self.post.b(acc, denom) as i128 - self.pre.b(acc, denom) as i128
    }
    pub fn post_malformed(&self) -> bool {
        self.post.pools.iter().any(|p| malformed(&p.pool_info))
    }
    pub fn dsupply(&self, denom: &str) -> i128 {
        self.post.sup(denom) as i128 - self.pre.sup(denom) as i128
    }
}

pub fn descriptor(p: &pm::PoolInfo) -> String {
    // the reserve list must keep holding exactly the pool's assets (order is not part of the descriptor)
    let mut held: Vec<&str> = p.assets.iter().map(|c| c.denom.as_str()).collect();
    held.sort();
    format!("{}|{:?}|{:?}|{:?}|{:?}|{}|held{:?}", p.pool_identifier, p.asset_denoms, p.asset_decimals, p.pool_type, p.pool_fees, p.lp_denom, held)
}

/// A pool whose reserve list no longer matches its asset list (only reachable through a defect; C16 reports it).
/// The alphabets skip such pools instead of indexing into them.
pub fn malformed(p: &pm::PoolInfo) -> bool {
    p.assets.len() < 2 || p.assets.len() != p.asset_denoms.len()
}

/// Decimals of a pool asset looked up by denom (asset_denoms / asset_decimals are parallel lists in creation order;
/// the reserve list `assets` is never assumed to be in that order by any oracle).
pub fn dec_of(p: &pm::PoolInfo, denom: &str) -> u32 {
    p.asset_denoms.iter().position(|d| d == denom).map(|i| p.asset_decimals[i] as u32).unwrap_or(0)
}

pub fn buffer_present(w: &World) -> bool {
    // raw storage key: wasm namespace of the pool manager + item key
    let needle = b"single_side_liquidity_provision_buffer";
    w.app.storage().data.keys().any(|k| k.windows(needle.len()).any(|x| x == needle))
}

/// Ghost ledger update from observable effects of an accepted operation (deliberately naive).
pub fn ghost_step(g: &PuGhost, op: &PuOp, pre: &PuObs, post: &PuObs) -> PuGhost {
    let mut g = g.clone();
    match op {
        PuOp::Donate { denom, amt, .. } => *g.donated.entry(denom.clone()).or_default() += amt,
        PuOp::Provide { funds, .. } if funds.len() == 1 && funds[0].1 % 2 == 1 => *g.odd.entry(funds[0].0.clone()).or_default() += 1,
        _ => {}
    }
    if let PuOp::Provide { pool, recv: Some(r), lock: None, .. } = op {
        if *r == PM {
            // the depositor asked for the LP to be minted to the pool manager itself: a gift to the contract, booked like a donation
            if let (Some(p0), Some(p1)) = (pre.pool(pool), post.pool(pool)) {
                let lp = &p1.pool_info.lp_denom;
                if pre.sup(lp) > 0 {
                    let minted = post.sup(lp).saturating_sub(pre.sup(lp));
                    *g.donated.entry(lp.clone()).or_default() += minted;
                }
                let _ = p0;
            }
        }
    }
    for p in &post.pools {
        let id = &p.pool_info.pool_identifier;
        if !g.desc.contains_key(id) {
            g.desc.insert(id.clone(), descriptor(&p.pool_info));
        }
        if !g.locked.contains_key(id) {
            let s0 = pre.sup(&p.pool_info.lp_denom);
            let s1 = post.sup(&p.pool_info.lp_denom);
            if s0 == 0 && s1 > 0 {
                g.locked.insert(id.clone(), post.b(PM, &p.pool_info.lp_denom));
            }
        }
    }
    g
}

pub type PuOracle = fn(&PuCtx, &mut Rec);

/// Metamorphic clause "spelling out a default equals omitting it": the operation is re-run on a copy of the pre-state with
/// the omitted optional field set to its documented default; outcome class and the whole chain storage must be identical.
/// `which`: 0 = price protection (max_slippage omitted = 1 %), 1 = receiver (omitted = the sender).
fn default_twin(op: &PuOp, which: u8) -> Option<PuOp> {
    let mut o = op.clone();
    match (&mut o, which) {
        (PuOp::Swap { slip, .. }, 0) | (PuOp::Route { slip, .. }, 0) if slip.is_none() => *slip = Some(100),
        (PuOp::Provide { swap_slip, funds, .. }, 0) if swap_slip.is_none() && funds.len() == 1 => *swap_slip = Some(100),
        (PuOp::Swap { recv, u, .. }, 1) | (PuOp::Route { recv, u, .. }, 1) if recv.is_none() => *recv = Some(*u),
        (PuOp::Provide { recv, u, lock, .. }, 1) if recv.is_none() && lock.is_none() => *recv = Some(*u),
        _ => return None,
    }
    Some(o)
}
fn defaults_clause(c: &PuCtx, rec: &mut Rec, which: u8, kind: &str) {
    let Some(twin) = default_twin(c.op, which) else { return };
    let cfgw = cfg();
    let (ok, same) = crate::engine::with_scratch(&cfgw, c.s0, |w2| {
        let o = apply(w2, &twin);
        (o.is_ok(), w2.app.storage().data == c.w.app.storage().data)
    });
    rec.count("explicit_default_twins");
    rec.validated += 1;
    if ok != c.out.is_ok() || !same {
        rec.viol(kind, format!("{:?} accepted={} but with the default spelled out ({:?}) accepted={ok}, same resulting state={same}", c.op, c.out.is_ok(), twin));
    }
}
/// Metamorphic clause "a coin sent in two pieces is the coin": a two-asset deposit is re-run on a copy of the pre-state with
/// its first coin split into two coins of the same denom (the contract aggregates attached coins; a chain's bank module
/// would not let such a list through, the repository's own test-suite sends them). Outcome class and the whole chain
/// storage must be identical.
pub fn oracle_split_coin(c: &PuCtx, rec: &mut Rec) {
    let PuOp::Provide { u, pool, funds, lock, lock_id, recv, liq_slip, swap_slip } = c.op else { return };
    if funds.len() < 2 || funds[0].1 < 2 {
        return;
    }
    let mut split = vec![(funds[0].0.clone(), funds[0].1 / 2), (funds[0].0.clone(), funds[0].1 - funds[0].1 / 2)];
    split.extend(funds[1..].iter().cloned());
    let twin = PuOp::Provide { u: *u, pool: pool.clone(), funds: split, lock: *lock, lock_id: lock_id.clone(), recv: *recv, liq_slip: *liq_slip, swap_slip: *swap_slip };
    let cfgw = cfg();
    let (ok, same) = crate::engine::with_scratch(&cfgw, c.s0, |w2| {
        let o = apply(w2, &twin);
        (o.is_ok(), w2.app.storage().data == c.w.app.storage().data)
    });
    rec.count("split_coin_twins");
    rec.validated += 1;
    if ok != c.out.is_ok() || !same {
        rec.viol("C02_split_coin_deposit_differs", format!("{:?} accepted={}; with its first coin sent as two coins of the same denom accepted={ok}, same resulting state={same}", c.op, c.out.is_ok()));
    }
}
pub fn oracle_default_slippage(c: &PuCtx, rec: &mut Rec) {
    defaults_clause(c, rec, 0, "C13_omitted_tolerance_is_not_the_default");
}
pub fn oracle_default_receiver(c: &PuCtx, rec: &mut Rec) {
    defaults_clause(c, rec, 1, "C04_omitted_receiver_is_not_the_sender");
}

#[derive(Clone, Copy, PartialEq, Eq, Debug)]
pub enum Alpha {
    Full,
    Core,
    /// swaps / routes / single-asset deposits / withdraw / donate only
    SwapFocus,
    /// property-specific alphabet
    Custom(fn(&World, &PuObs) -> Vec<PuOp>),
}

#[derive(Clone)]
pub struct PuChecker {
    pub name: String,
    pub seeds: Vec<&'static str>,
    pub alpha: Alpha,
    pub oracles: Vec<PuOracle>,
}

pub fn cfg() -> WorldCfg {
    WorldCfg { n_users: N_USERS, ..Default::default() }
}

fn mk_pool(id: &str, denoms: &[&str], decimals: &[u8], fees: FeeSpec, amp: Option<u64>) -> PuOp {
    PuOp::CreatePool {
        u: OWNER,
        denoms: denoms.iter().map(|s| s.to_string()).collect(),
        decimals: decimals.to_vec(),
        fees,
        amp,
        id: Some(id.to_string()),
        funds: vec![("uom".into(), 8888), ("uusd".into(), 1000)],
    }
}
fn prov(u: usize, pool: &str, funds: &[(&str, u128)]) -> PuOp {
    PuOp::Provide { u, pool: pool.into(), funds: funds.iter().map(|(d, a)| (d.to_string(), *a)).collect(), lock: None, lock_id: None, recv: None, liq_slip: None, swap_slip: None }
}

const E6: u128 = 1_000_000;
const E18: u128 = 1_000_000_000_000_000_000;

pub fn seed_ops(name: &str) -> Vec<PuOp> {
    let base = |fees: FeeSpec| -> Vec<PuOp> {
        vec![
            mk_pool("cp", &["uom", "uusd"], &[6, 6], fees.clone(), None),
            prov(OWNER, "o.cp", &[("uom", 10 * E6), ("uusd", 20 * E6)]),
            mk_pool("ss", &["uusd", "uusdc", "ausdy"], &[6, 6, 18], fees.clone(), Some(100)),
            prov(OWNER, "o.ss", &[("uusd", 10 * E6), ("uusdc", 10 * E6), ("ausdy", 10 * E18)]),
            mk_pool("cp2", &["uusdc", "uom"], &[6, 6], fees.clone(), None),
            // created with its denoms in non-alphabetical order and funded off 1:1 (a symmetric pool hides reserve mix-ups)
            prov(OWNER, "o.cp2", &[("uusdc", 5 * E6), ("uom", 8 * E6)]),
            mk_pool("s2", &["uusdc", "ausdy"], &[6, 18], fees, Some(100)),
            prov(OWNER, "o.s2", &[("uusdc", 10 * E6), ("ausdy", 10 * E18)]),
            prov(A, "o.cp", &[("uom", E6), ("uusd", 2 * E6)]),
            prov(A, "o.ss", &[("uusd", E6), ("uusdc", E6), ("ausdy", E18)]),
        ]
    };
    match name {
        "S0" => vec![],
        "S1" => vec![mk_pool("cp", &["uom", "uusd"], &[6, 6], std_fees(), None), prov(OWNER, "o.cp", &[("uom", 10 * E6), ("uusd", 20 * E6)])],
        "S2" => base(std_fees()),
        "S3" => base(zero_fees()),
        "S4" => {
            let mut v = base(std_fees());
            v.push(PuOp::Swap { u: B, pool: "o.ss".into(), offer: vec![("uusd".into(), 4 * E6)], ask: "ausdy".into(), slip: Some(5000), belief: None, recv: None });
            v.push(PuOp::Swap { u: B, pool: "o.cp".into(), offer: vec![("uom".into(), 3 * E6)], ask: "uusd".into(), slip: Some(5000), belief: None, recv: None });
            v.push(PuOp::Provide { u: B, pool: "o.cp".into(), funds: vec![("uusd".into(), 333_333)], lock: None, lock_id: None, recv: None, liq_slip: None, swap_slip: Some(5000) });
            v.push(PuOp::Provide { u: B, pool: "o.s2".into(), funds: vec![("uusdc".into(), 77_777)], lock: None, lock_id: None, recv: None, liq_slip: None, swap_slip: Some(5000) });
            v
        }
        "S5" => base(cap_fees()),
        // every pool charges the burn fee only: a hop's swap and protocol fees are zero while something must still be burned
        "S9" => base(burn_only_fees()),
        // a constant-product pool whose only liquidity provider is A (the owner holds none), after a fee-paying swap:
        // A can drain it down to the locked minimum
        "S7" => vec![
            mk_pool("cp", &["uom", "uusd"], &[6, 6], std_fees(), None),
            prov(A, "o.cp", &[("uom", E6), ("uusd", 2 * E6)]),
            PuOp::Swap { u: B, pool: "o.cp".into(), offer: vec![("uom".into(), 300_000)], ask: "uusd".into(), slip: Some(5000), belief: None, recv: None },
        ],
        // S2 / S3 with every pool created with its denoms (and decimals) listed in the opposite order
        "S2r" | "S3r" => base(if name == "S2r" { std_fees() } else { zero_fees() })
            .into_iter()
            .map(|op| match op {
                PuOp::CreatePool { u, mut denoms, mut decimals, fees, amp, id, funds } => {
                    denoms.reverse();
                    decimals.reverse();
                    PuOp::CreatePool { u, denoms, decimals, fees, amp, id, funds }
                }
                o => o,
            })
            .collect(),
        // a three-asset stableswap pool funded at the minimum-liquidity scale whose middle reserve was then emptied by two
        // swaps under a belief price generous enough to pass the price protection (the first leaves the swap fee behind)
        "S8a" => {
            let mut v = seed_ops("S8");
            v.pop();
            v
        }
        "S8" => {
            let drain = |amt: u128| PuOp::Swap { u: B, pool: "o.ss".into(), offer: vec![("uusd".into(), amt)], ask: "uusdc".into(), slip: Some(5000), belief: Some((E18, 1)), recv: None };
            vec![
                mk_pool("ss", &["uusd", "uusdc", "ausdy"], &[6, 6, 18], std_fees(), Some(100)),
                prov(OWNER, "o.ss", &[("uusd", 1000), ("uusdc", 1000), ("ausdy", 1_000_000_000_000_000)]),
                drain(50 * E6),
                drain(50 * E6),
            ]
        }
        "S6" => {
            // a four-asset stableswap pool next to a constant-product pool sharing two of its denoms
            let mut v = vec![mk_pool("cp", &["uom", "uusd"], &[6, 6], std_fees(), None), prov(OWNER, "o.cp", &[("uom", 10 * E6), ("uusd", 20 * E6)])];
            v.push(mk_pool("s4", &["uusd", "uusdc", "uweth", "uom"], &[6, 6, 6, 6], std_fees(), Some(10)));
            v.push(prov(OWNER, "o.s4", &[("uusd", 8 * E6), ("uusdc", 9 * E6), ("uweth", 10 * E6), ("uom", 11 * E6)]));
            v.push(prov(A, "o.s4", &[("uusd", E6), ("uusdc", E6), ("uweth", E6), ("uom", E6)]));
            // a constant-product pool of a 6- and an 18-decimals asset (raw reserve ratio 10^12), 18-decimals denom listed first
            v.push(mk_pool("cpx", &["ausdy", "uusdc"], &[18, 6], std_fees(), None));
            v.push(prov(OWNER, "o.cpx", &[("ausdy", 3 * E18), ("uusdc", 3 * E6)]));
            v.push(prov(A, "o.cpx", &[("ausdy", E18), ("uusdc", E6)]));
            v
        }
        _ => panic!("MACHINERY: unknown PU seed {name}"),
    }
}

fn route(u: usize, hops: &[(&str, &str, &str)], amt: u128, min: Option<u128>, recv: Option<usize>) -> PuOp {
    PuOp::Route { u, hops: hops.iter().map(|(a, b, c)| (a.to_string(), b.to_string(), c.to_string())).collect(), amt, min, recv, slip: Some(5000) }
}

pub fn enabled(w: &World, pre: &PuObs, alpha: Alpha) -> Vec<PuOp> {
    if let Alpha::Custom(f) = alpha {
        return f(w, pre);
    }
    let mut ops: Vec<PuOp> = vec![];
    let full = alpha == Alpha::Full;
    let swapfocus = alpha == Alpha::SwapFocus;
    let sw = |u: usize, pool: &str, o: &str, amt: u128, a: &str, slip: Option<u64>, recv: Option<usize>| PuOp::Swap { u, pool: pool.into(), offer: vec![(o.into(), amt)], ask: a.into(), slip, belief: None, recv };
    for p in &pre.pools {
        if malformed(&p.pool_info) {
            continue;
        }
        let id = p.pool_info.pool_identifier.as_str();
        let assets = &p.pool_info.assets;
        let n = assets.len();
        let funded = assets.iter().all(|c| !c.amount.is_zero());
        let d = |i: usize| assets[i].denom.as_str();
        let r = |i: usize| assets[i].amount.u128();
        let lp = p.pool_info.lp_denom.as_str();
        if funded {
            // swaps
            ops.push(sw(A, id, d(0), (r(0) / 100).max(1), d(1), None, None));
            ops.push(sw(A, id, d(1), r(1) * 3 / 10 + 1, d(0), Some(5000), None));
            if full || swapfocus {
                // dust offers under a belief price so generous that the promised minimum rounds to nothing
                for (o, a, amt) in [(0usize, 1usize, 1u128), (1, 0, 1), (0, 1, 300)] {
                    ops.push(PuOp::Swap { u: A, pool: id.into(), offer: vec![(d(o).into(), amt)], ask: d(a).into(), slip: Some(5000), belief: Some((1_000_000, 1)), recv: None });
                }
                ops.push(sw(A, id, d(0), 1, d(1), Some(5000), None));
                ops.push(sw(B, id, d(1), (r(1) / 100).max(1), d(0), Some(5000), Some(A)));
            }
            if n > 2 {
                ops.push(sw(A, id, d(2), (r(2) / 100).max(1), d(0), Some(5000), None));
                if full || swapfocus {
                    ops.push(sw(A, id, d(0), r(0) * 3 / 10 + 1, d(2), Some(5000), None));
                }
            }
            // deposits
            let balanced: Funds = assets.iter().map(|c| (c.denom.clone(), c.amount.u128() / 50 + 1)).collect();
            let pr = |u: usize, funds: Funds, lock: Option<u64>, lock_id: Option<&str>, recv: Option<usize>, liq: Option<u64>| PuOp::Provide { u, pool: id.into(), funds, lock, lock_id: lock_id.map(|s| s.to_string()), recv, liq_slip: liq, swap_slip: Some(5000) };
            if !swapfocus {
                ops.push(pr(A, balanced.clone(), None, None, None, None));
            }
            if n == 2 {
                let odd = (r(0) / 100) | 1;
                ops.push(pr(A, vec![(d(0).into(), odd)], None, None, None, None));
                if full || swapfocus {
                    // single-asset deposits of one and of two units, either side
                    for (i, amt) in [(0usize, 1u128), (1, 1), (0, 2), (1, 2)] {
                        ops.push(pr(A, vec![(d(i).into(), amt)], None, None, None, None));
                    }
                }
                if full || swapfocus {
                    let even = ((r(1) / 100) | 1) + 1;
                    ops.push(pr(A, vec![(d(1).into(), even)], Some(DAY), None, None, None));
                }
            } else if !swapfocus {
                ops.push(pr(A, vec![(d(0).into(), 5000), (d(1).into(), 7000)], None, None, None, None));
                if full {
                    ops.push(pr(A, vec![(d(0).into(), 100_001)], None, None, None, None)); // refused: single asset on 3-pool
                }
            }
            if full {
                // dust deposit carrying the largest valid deposit tolerance (the only shape a stableswap pool accepts with one)
                ops.push(pr(A, assets.iter().map(|c| (c.denom.clone(), 1u128)).collect(), None, None, None, Some(10_000)));
                if n == 2 {
                    // a deposit of fixed size, whatever the pool holds (many times the reserves of a drained pool)
                    ops.push(pr(A, vec![(d(0).into(), 2_000_000), (d(1).into(), 3_000_000)], None, None, None, None));
                    // strongly one-sided two-asset deposits
                    ops.push(pr(A, vec![(d(0).into(), r(0) / 10 + 1), (d(1).into(), 1)], None, None, None, None));
                    ops.push(pr(A, vec![(d(0).into(), 1), (d(1).into(), r(1) / 10 + 1)], None, None, None, None));
                }
                let mut skew = balanced.clone();
                skew[0].1 *= 3;
                ops.push(pr(A, skew, None, None, None, None));
                ops.push(pr(A, balanced.clone(), Some(DAY), None, None, None));
                ops.push(pr(A, balanced.clone(), None, None, Some(B), None));
                // LP minted to the pool manager itself (a gift), and to a receiver string that is not an address (falls back to the sender)
                ops.push(pr(A, balanced.clone(), None, None, Some(PM), None));
                ops.push(pr(A, balanced.clone(), None, None, Some(99), None));
                if n == 2 {
                    ops.push(pr(A, vec![(d(0).into(), (r(0) / 100) | 1)], None, None, Some(99), None));
                }
                if n == 2 {
                    ops.push(pr(A, balanced.clone(), None, None, None, Some(100)));
                    // lock into an existing position of A (if any) and into B's position (refused)
                    if let Some(pos) = pre.positions.iter().find(|x| x.receiver == w.users[A] && x.open && x.lp_asset.denom == lp) {
                        ops.push(pr(A, balanced.clone(), Some(DAY), Some(&pos.identifier), None, None));
                    }
                    if let Some(pos) = pre.positions.iter().find(|x| x.receiver == w.users[B] && x.open && x.lp_asset.denom == lp) {
                        ops.push(pr(A, balanced.clone(), Some(DAY), Some(&pos.identifier), None, None));
                    }
                    // a small locked deposit naming a position of A that holds ANOTHER pool's LP token
                    if let Some(pos) = pre.positions.iter().find(|x| x.receiver == w.users[A] && x.open && x.lp_asset.denom != lp) {
                        ops.push(pr(A, vec![(d(0).into(), 300), (d(1).into(), 300)], Some(pos.unlocking_duration), Some(&pos.identifier), None, None));
                    }
                    ops.push(pr(A, balanced.clone(), Some(DAY), None, Some(B), None)); // lock for someone else: refused
                }
            }
            // withdrawals
            let la = pre.b(A, lp);
            if la > 0 {
                ops.push(PuOp::Withdraw { u: A, pool: id.into(), funds: vec![(lp.into(), la)] });
                if full || swapfocus {
                    if la / 3 > 0 {
                        ops.push(PuOp::Withdraw { u: A, pool: id.into(), funds: vec![(lp.into(), la / 3)] });
                    }
                    ops.push(PuOp::Withdraw { u: A, pool: id.into(), funds: vec![(lp.into(), 1)] });
                }
            }
            let lb = pre.b(B, lp);
            if lb > 0 && full {
                ops.push(PuOp::Withdraw { u: B, pool: id.into(), funds: vec![(lp.into(), lb)] });
            }
        } else if !swapfocus {
            // unfunded pool: first deposit, refused single-asset deposit, refused swap
            let init: Funds = assets.iter().map(|c| (c.denom.clone(), 3 * 10u128.pow(dec_of(&p.pool_info, &c.denom)))).collect();
            ops.push(PuOp::Provide { u: A, pool: id.into(), funds: init, lock: None, lock_id: None, recv: None, liq_slip: None, swap_slip: None });
            if full {
                ops.push(PuOp::Provide { u: A, pool: id.into(), funds: vec![(d(0).into(), 100_001)], lock: None, lock_id: None, recv: None, liq_slip: None, swap_slip: None });
                ops.push(sw(A, id, d(0), 1000, d(1), Some(5000), None));
                // first deposits that must be refused: too small to leave the locked minimum, all assets but one
                ops.push(PuOp::Provide { u: A, pool: id.into(), funds: assets.iter().map(|c| (c.denom.clone(), 10u128)).collect(), lock: None, lock_id: None, recv: None, liq_slip: None, swap_slip: None });
                ops.push(PuOp::Provide { u: A, pool: id.into(), funds: assets.iter().skip(1).map(|c| (c.denom.clone(), 3_000_000u128)).collect(), lock: None, lock_id: None, recv: None, liq_slip: None, swap_slip: None });
                // a pool with an emptied reserve (only swaps get it there): a deposit of 100 tokens of every asset it still holds
                let held: Funds = assets.iter().filter(|c| !c.amount.is_zero()).map(|c| (c.denom.clone(), 100 * 10u128.pow(dec_of(&p.pool_info, &c.denom)))).collect();
                if held.len() >= 2 && held.len() < n {
                    ops.push(PuOp::Provide { u: A, pool: id.into(), funds: held, lock: None, lock_id: None, recv: None, liq_slip: None, swap_slip: None });
                }
            }
        }
    }
    // routes through pools sharing denoms
    let has = |id: &str| pre.pool(id).map_or(false, |p| p.pool_info.assets.iter().all(|c| !c.amount.is_zero()));
    if has("o.cp") && has("o.ss") {
        let h1 = [("uom", "uusd", "o.cp"), ("uusd", "uusdc", "o.ss")];
        let h2 = [("uusdc", "uusd", "o.ss"), ("uusd", "uom", "o.cp")];
        ops.push(route(B, &h1, 50_000, None, None));
        if full || swapfocus {
            // dust: amounts worth less than one unit of an intermediate asset
            ops.push(route(B, &h1, 1, None, None));
            ops.push(route(B, &h2, 2, None, None));
            if has("o.cp2") {
                // first hop worth less than one unit of its ask asset (returns nothing), a stableswap hop last
                ops.push(route(B, &[("uusd", "uom", "o.cp"), ("uom", "uusdc", "o.cp2"), ("uusdc", "uusd", "o.ss")], 1, None, None));
            }
        }
        // minimum_receive on the boundary, from the route simulation on this state
        if let Ok(s) = w.query::<pm::SimulateSwapOperationsResponse, _>(&w.pool_manager, &pm::QueryMsg::SimulateSwapOperations { offer_amount: Uint128::new(70_001), operations: ops_of(&h2.iter().map(|(a, b, c)| (a.to_string(), b.to_string(), c.to_string())).collect::<Vec<_>>()) }) {
            ops.push(route(B, &h2, 70_001, Some(s.return_amount.u128()), Some(A)));
            if full || swapfocus {
                ops.push(route(B, &h2, 70_001, Some(s.return_amount.u128() + 1), Some(A)));
            }
        }
        if has("o.cp2") {
            ops.push(route(B, &[("uom", "uusd", "o.cp"), ("uusd", "uusdc", "o.ss"), ("uusdc", "uom", "o.cp2")], 33_333, None, None));
            if full || swapfocus {
                // revisits a pool, and a 4-hop revisiting a denom
                ops.push(route(B, &[("uom", "uusd", "o.cp"), ("uusd", "uom", "o.cp"), ("uom", "uusdc", "o.cp2")], 44_444, None, None));
                // a route through one pool twice in the same direction, demanding what SimulateSwapOperations promises for it
                // (the quote prices both visits on the same reserves, so execution delivers less: must be refused)
                let rv = [("uom", "uusd", "o.cp"), ("uusd", "uusdc", "o.ss"), ("uusdc", "uom", "o.cp2"), ("uom", "uusd", "o.cp")];
                if let Ok(sim) = w.query::<pm::SimulateSwapOperationsResponse, _>(&w.pool_manager, &pm::QueryMsg::SimulateSwapOperations { offer_amount: Uint128::new(900_000), operations: ops_of(&rv.iter().map(|(a, b, c)| (a.to_string(), b.to_string(), c.to_string())).collect::<Vec<_>>()) }) {
                    ops.push(route(B, &rv, 900_000, Some(sim.return_amount.u128()), None));
                }
                // two hops deliver (and charge fees in) the same denom
                ops.push(route(B, &[("uom", "uusd", "o.cp"), ("uusd", "uusdc", "o.ss"), ("uusdc", "uom", "o.cp2"), ("uom", "uusd", "o.cp")], 55_555, None, None));
            }
        }
        if has("o.cp2") && has("o.s2") {
            // three pools visited once each while one denom is the input of two hops (the second time as the product of the
            // hop before): a quote that looks amounts up by denom must take the latest one
            ops.push(route(B, &[("uusdc", "ausdy", "o.s2"), ("ausdy", "uusdc", "o.ss"), ("uusdc", "uom", "o.cp2")], 60_000, None, None));
        }
        if full {
            // a hop whose input and output denom are the same, alone and inside an otherwise valid route: refused
            ops.push(route(B, &[("uusd", "uusd", "o.ss")], 1000, None, None));
            ops.push(route(B, &[("uom", "uusd", "o.cp"), ("uusd", "uusd", "o.ss"), ("uusd", "uom", "o.cp")], 1000, None, None));
            ops.push(route(B, &[("uom", "uusd", "o.cp"), ("uusdc", "uusd", "o.ss")], 1000, None, None)); // non-consecutive: refused
            if has("o.cp2") {
                // non-consecutive at the second link (the later pool does hold the declared denom), 3 and 4 hops: refused
                ops.push(route(B, &[("uom", "uusd", "o.cp"), ("uusd", "uusdc", "o.ss"), ("uom", "uusdc", "o.cp2")], 30_000, None, None));
                ops.push(route(B, &[("uom", "uusd", "o.cp"), ("uusd", "uusdc", "o.ss"), ("uusdc", "uom", "o.cp2"), ("uusd", "uom", "o.cp")], 30_000, None, None));
            }
        }
    }
    if has("o.cp") && has("o.s4") {
        ops.push(route(B, &[("uom", "uusd", "o.cp"), ("uusd", "uweth", "o.s4")], 40_000, None, None));
        ops.push(route(B, &[("uweth", "uom", "o.s4"), ("uom", "uusd", "o.cp")], 40_000, None, Some(A)));
    }
    ops.push(PuOp::Donate { u: B, denom: "uusd".into(), amt: 7 });
    if full {
        // invalid operations
        if let Some(p) = pre.pools.iter().find(|p| !malformed(&p.pool_info)) {
            let id = p.pool_info.pool_identifier.clone();
            let d0 = p.pool_info.assets[0].denom.clone();
            let d1 = p.pool_info.assets[1].denom.clone();
            ops.push(PuOp::Swap { u: A, pool: id.clone(), offer: vec![("uweth".into(), 1000)], ask: d0.clone(), slip: None, belief: None, recv: None });
            ops.push(PuOp::Swap { u: A, pool: id.clone(), offer: vec![(d0.clone(), 1000), (d1.clone(), 1000)], ask: d1.clone(), slip: None, belief: None, recv: None });
            ops.push(PuOp::Swap { u: A, pool: "o.none".into(), offer: vec![(d0.clone(), 1000)], ask: d1.clone(), slip: None, belief: None, recv: None });
            ops.push(PuOp::Provide { u: A, pool: "o.none".into(), funds: vec![(d0.clone(), 1000), (d1.clone(), 1000)], lock: None, lock_id: None, recv: None, liq_slip: None, swap_slip: None });
            if let Some(p2) = pre.pools.get(1) {
                let la = pre.b(A, &p2.pool_info.lp_denom);
                if la > 0 {
                    ops.push(PuOp::Withdraw { u: A, pool: id.clone(), funds: vec![(p2.pool_info.lp_denom.clone(), la.min(1000))] });
                }
            }
            ops.push(PuOp::Withdraw { u: A, pool: id.clone(), funds: vec![(d0.clone(), 1000)] });
            // a deposit carrying a denom the pool does not hold
            ops.push(PuOp::Provide { u: A, pool: id.clone(), funds: vec![(d0.clone(), 1000), ("uweth".into(), 1000)], lock: None, lock_id: None, recv: None, liq_slip: None, swap_slip: None });
        }
        // owner operations
        if let Some(p) = pre.pools.first() {
            let id = p.pool_info.pool_identifier.clone();
            let st = &p.pool_info.status;
            ops.push(PuOp::Toggle { u: OWNER, pool: id.clone(), w: None, d: None, s: Some(!st.swaps_enabled) });
            ops.push(PuOp::Toggle { u: OWNER, pool: id.clone(), w: None, d: Some(!st.deposits_enabled), s: None });
            ops.push(PuOp::Toggle { u: OWNER, pool: id.clone(), w: Some(!st.withdrawals_enabled), d: None, s: None });
            ops.push(PuOp::Toggle { u: A, pool: id.clone(), w: Some(false), d: None, s: None }); // not the owner: refused
            // a switch and a configuration value in the same message
            let fee_now = pre.cfg.as_ref().map(|c| c.pool_creation_fee.amount.u128()).unwrap_or(1000);
            ops.push(PuOp::ToggleAndFee { u: OWNER, pool: id.clone(), w: None, d: None, s: Some(!st.swaps_enabled), amt: if fee_now == 1000 { 2000 } else { 1000 } });
        }
        let fee_now = pre.cfg.as_ref().map(|c| c.pool_creation_fee.amount.u128()).unwrap_or(1000);
        ops.push(PuOp::SetPoolFee { u: OWNER, denom: "uusd".into(), amt: if fee_now == 1000 { 2000 } else { 1000 } });
        if fee_now != 0 {
            ops.push(PuOp::SetPoolFee { u: OWNER, denom: "uusd".into(), amt: 0 }); // pool creation becomes free (token-factory fee still due)
        }
        // pool creation by a user: valid (exact fees), duplicate identifier, underpaid
        let fee = pre.cfg.as_ref().map(|c| c.pool_creation_fee.clone()).unwrap_or(coin(1000, "uusd"));
        let mut exact: Funds = vec![("uom".into(), 8888)];
        if !fee.amount.is_zero() {
            exact.push((fee.denom.clone(), fee.amount.u128()));
        }
        if pre.pool("o.n1").is_none() {
            ops.push(PuOp::CreatePool { u: A, denoms: vec!["uusdc".into(), "uweth".into()], decimals: vec![6, 6], fees: std_fees(), amp: None, id: Some("n1".into()), funds: exact.clone() });
        }
        ops.push(PuOp::CreatePool { u: A, denoms: vec!["uusd".into(), "uweth".into()], decimals: vec![6, 6], fees: std_fees(), amp: Some(10), id: None, funds: exact.clone() });
        if let Some(p) = pre.pools.first() {
            let short = p.pool_info.pool_identifier.trim_start_matches("o.").to_string();
            if p.pool_info.pool_identifier.starts_with("o.") {
                ops.push(PuOp::CreatePool { u: A, denoms: vec!["uusdc".into(), "uweth".into()], decimals: vec![6, 6], fees: std_fees(), amp: None, id: Some(short), funds: exact.clone() });
            }
        }
        // nothing attached at all
        ops.push(PuOp::CreatePool { u: A, denoms: vec!["uusdc".into(), "uweth".into()], decimals: vec![6, 6], fees: std_fees(), amp: None, id: Some("n3".into()), funds: vec![] });
        let mut under = exact.clone();
        under[0].1 -= 1;
        ops.push(PuOp::CreatePool { u: A, denoms: vec!["uusdc".into(), "uweth".into()], decimals: vec![6, 6], fees: std_fees(), amp: None, id: Some("n2".into()), funds: under });
    }
    ops
}

impl Checker for PuChecker {
    type Op = PuOp;
    type Ghost = PuGhost;
    type Pre = PuObs;
    fn name(&self) -> String {
        self.name.clone()
    }
    fn cfg(&self) -> WorldCfg {
        cfg()
    }
    fn seeds(&self) -> Vec<(String, Vec<PuOp>)> {
        self.seeds.iter().map(|s| (s.to_string(), seed_ops(s))).collect()
    }
    fn pre(&self, w: &mut World, _g: &PuGhost) -> PuObs {
        observe(w)
    }
    fn enabled(&self, w: &mut World, _g: &PuGhost, pre: &PuObs) -> Vec<PuOp> {
        enabled(w, pre, self.alpha)
    }
    fn apply(&self, w: &mut World, op: &PuOp) -> bool {
        apply(w, op).is_ok()
    }
    fn step(&self, w: &mut World, g: &PuGhost, pre: &PuObs, op: &PuOp, rec: &mut Rec) -> Option<PuGhost> {
        let q = quote(w, op);
        let s0 = w.snapshot();
        let out = apply(w, op);
        let post = observe(w);
        let unchanged = w.app.storage().data == s0.storage.data;
        let g1 = if out.is_ok() { ghost_step(g, op, pre, &post) } else { g.clone() };
        let ctx = PuCtx { w, op, pre, post: &post, out: &out, g0: g, g1: &g1, quote: &q, s0: &s0, storage_unchanged: unchanged, buffer_present: buffer_present(w) };
        for o in &self.oracles {
            o(&ctx, rec);
        }
        if out.is_ok() && post.pools.iter().any(|p| malformed(&p.pool_info)) {
            rec.count("malformed_pool_states_not_expanded");
            return None;
        }
        if out.is_ok() {
            Some(g1)
        } else {
            None
        }
    }
}

/// One grid case over the pool universe: setup operations (all must be accepted, otherwise the point is
/// skipped and counted) followed by the operation under test, evaluated by the same transition oracles
/// as the explorations.
#[derive(Clone, Debug, Serialize, Deserialize)]
pub struct PuCase {
    pub setup: Vec<PuOp>,
    pub op: PuOp,
}

pub fn run_case(w: &mut World, case: &PuCase, oracles: &[PuOracle], rec: &mut Rec) -> bool {
    let cfg = cfg();
    restore_base(w, "pu-case", &cfg, |_| {});
    let chk = PuChecker { name: "case".into(), seeds: vec![], alpha: Alpha::Core, oracles: oracles.to_vec() };
    let mut g = PuGhost::default();
    for op in &case.setup {
        let pre = observe(w);
        match chk.step(w, &g, &pre, op, rec) {
            Some(g2) => g = g2,
            None => {
                rec.count("case_setup_refused");
                return false;
            }
        }
    }
    let pre = observe(w);
    let r = chk.step(w, &g, &pre, &case.op, rec);
    rec.outcome(&chk.op_kind(&case.op), if r.is_some() { "ok" } else { "refused" });
    true
}
