//! Jobs, known-finding attribution, replay files and the evidence writer (DESIGN.md §2, §5).
use crate::engine::*;
use crate::world::*;
use serde::de::DeserializeOwned;
use serde::Serialize;
use serde_json::{json, Value};
use std::collections::{BTreeMap, BTreeSet};
use std::fmt::Debug;
use std::sync::Arc;

pub fn verif_dir() -> String {
    std::env::var("VERIF_DIR").unwrap_or_else(|_| "/verif".to_string())
}

#[derive(Clone, Copy, PartialEq, Eq, Debug)]
pub enum Tier {
    Quick,
    Thorough,
}
impl Tier {
    pub fn s(&self) -> &'static str {
        match self {
            Tier::Quick => "quick",
            Tier::Thorough => "thorough",
        }
    }
    pub fn pick<T>(&self, q: T, t: T) -> T {
        match self {
            Tier::Quick => q,
            Tier::Thorough => t,
        }
    }
}

pub enum JobReport {
    Explore(ExploreReport),
    Grid(GridReport),
}

pub struct Job {
    pub name: String,
    pub run: Box<dyn Fn() -> JobReport>,
    /// re-runs one recorded case linearly, without the explorer
    pub replay: Box<dyn Fn(&Value) -> Rec>,
}

pub fn explore_job<C: Checker + Send + 'static>(c: C, depth: usize, caps: Caps) -> Job {
    let c = Arc::new(c);
    let c2 = c.clone();
    Job {
        name: c.name(),
        run: Box::new(move || JobReport::Explore(explore(&*c, depth, &caps))),
        replay: Box::new(move |v: &Value| {
            let hist: Vec<C::Op> = serde_json::from_value(v["history"].clone()).expect("history");
            let op: Option<C::Op> = serde_json::from_value(v["op"].clone()).expect("op");
            replay(&*c2, v["seed"].as_str().unwrap(), &hist, op.as_ref())
        }),
    }
}

pub fn grid_job<I: Sync + Send + Serialize + DeserializeOwned + Debug + 'static>(
    name: &str,
    rule: &str,
    cfg: impl Fn() -> WorldCfg + Sync + Send + Clone + 'static,
    inputs: Vec<I>,
    f: impl Fn(&mut World, &I, &mut Rec) -> bool + Sync + Send + Clone + 'static,
) -> Job {
    let name_s = name.to_string();
    let rule_s = rule.to_string();
    let (cfg2, f2) = (cfg.clone(), f.clone());
    let n2 = name_s.clone();
    Job {
        name: name_s.clone(),
        run: Box::new(move || JobReport::Grid(grid(&name_s, &rule_s, &cfg, &inputs, &f))),
        replay: Box::new(move |v: &Value| {
            let inp: I = serde_json::from_value(v["op"].clone()).expect("grid input");
            let mut rec = Rec::default();
            with_world(&n2, &|| cfg2(), |w| {
                f2(w, &inp, &mut rec);
            });
            rec
        }),
    }
}

#[derive(serde::Deserialize, Debug, Clone)]
pub struct KnownFinding {
    pub id: String,
    pub property: String,
    pub call_site: String,
    pub what: String,
    /// violation kind this record may absorb
    pub kind: String,
    /// exact attribution keys (input + observed output, or a trigger/envelope tag computed by the oracle)
    pub keys: Vec<String>,
}
#[derive(serde::Deserialize, Debug, Default)]
pub struct KnownFile {
    #[serde(default)]
    pub findings: Vec<KnownFinding>,
    #[serde(default)]
    pub fixed: Vec<String>,
}

pub fn load_known() -> KnownFile {
    if std::env::var("VERIF_NO_KNOWN").is_ok() {
        // developer switch used when (re)generating the known-findings file: report everything
        return KnownFile::default();
    }
    let p = format!("{}/known_findings.json", verif_dir());
    match std::fs::read_to_string(&p) {
        Ok(s) => serde_json::from_str(&s).unwrap_or_else(|e| {
            eprintln!("MACHINERY ERROR: cannot parse {p}: {e}");
            std::process::exit(2)
        }),
        Err(_) => KnownFile::default(),
    }
}

pub struct Report {
    pub prop: String,
    pub tier: Tier,
    pub seed: u64,
    pub level: String,
    pub t0: std::time::Instant,
    pub jobs: Vec<Value>,
    pub states: u64,
    pub transitions: u64,
    pub validated: u64,
    pub evaluations: u64,
    pub distinct_nontrivial: u64,
    pub exhaustive: bool,
    pub samples: Vec<Value>,
    pub rules: Vec<String>,
    pub unlisted: Vec<(String, ViolRecord, u64)>, // job, first record, count
    pub known_hits: BTreeMap<String, BTreeSet<String>>, // finding id -> keys reproduced
    pub assumptions: Vec<String>,
    pub machinery_errors: Vec<String>,
    pub required_ok: Vec<(String, String)>,
    /// vacuity guards: (job, counter or "Kind:ok" outcome) that must be > 0 when the job completes
    pub required_counters: Vec<(String, String)>,
}

impl Report {
    pub fn new(prop: &str, tier: Tier, level: &str) -> Report {
        let seed = std::env::var("VERIF_SEED").ok().and_then(|s| s.parse().ok()).unwrap_or(0);
        Report {
            prop: prop.into(),
            tier,
            seed,
            level: level.into(),
            t0: std::time::Instant::now(),
            jobs: vec![],
            states: 0,
            transitions: 0,
            validated: 0,
            evaluations: 0,
            distinct_nontrivial: 0,
            exhaustive: true,
            samples: vec![],
            rules: vec![],
            unlisted: vec![],
            known_hits: BTreeMap::new(),
            assumptions: vec![
                "cw-multi-test executes the contracts natively (no wasm VM); bank and token-factory are the mocks the repository's own tests use".into(),
                "message funds are valid Cosmos coin sets; HashMap iteration order inside the contracts may permute events, so event order and error texts are never compared".into(),
            ],
            machinery_errors: vec![],
            required_ok: vec![],
            required_counters: vec![],
        }
    }

    pub fn require_counter(&mut self, job: &str, counter: &str) {
        self.required_counters.push((job.to_string(), counter.to_string()));
    }
    /// vacuity guard: this op kind must have been accepted at least once in job `job`
    pub fn require_ok(&mut self, job: &str, kind: &str) {
        self.required_ok.push((job.to_string(), kind.to_string()));
    }

    fn absorb(&mut self, job: &str, viols: BTreeMap<String, (u64, ViolRecord)>, keyed: Vec<ViolRecord>, known: &KnownFile) {
        // keyed records: exact attribution one by one
        let mut unlisted_keyed: BTreeMap<String, (u64, ViolRecord)> = BTreeMap::new();
        let mut keyed_kinds: BTreeSet<String> = BTreeSet::new();
        let mut dump: Vec<(String, String)> = vec![];
        for r in keyed {
            keyed_kinds.insert(r.kind.clone());
            let k = r.kf_key.clone().unwrap();
            let hit = known.findings.iter().find(|f| f.property == self.prop && f.kind == r.kind && f.keys.iter().any(|x| x == &k));
            match hit {
                Some(f) => {
                    self.known_hits.entry(f.id.clone()).or_default().insert(k);
                }
                None => {
                    dump.push((k.clone(), r.kind.clone()));
                    let e = unlisted_keyed.entry(r.kind.clone()).or_insert_with(|| (0, r.clone()));
                    e.0 += 1;
                    if r.depth < e.1.depth {
                        e.1 = r;
                    }
                }
            }
        }
        for (kind, (n, r)) in viols {
            if r.kf_key.is_some() && keyed_kinds.contains(&kind) {
                continue; // handled above, record by record
            }
            self.unlisted.push((job.to_string(), r, n));
        }
        if let Ok(p) = std::env::var("VERIF_DUMP_KEYS") {
            // diagnostic only (used to prepare known_findings.json by hand; never read back)
            use std::io::Write;
            if let Ok(mut f) = std::fs::OpenOptions::new().create(true).append(true).open(&p) {
                for (k, kind) in &dump {
                    let _ = writeln!(f, "{}\t{}\t{}", self.prop, kind, k);
                }
            }
        }
        for (_, (n, r)) in unlisted_keyed {
            self.unlisted.push((job.to_string(), r, n));
        }
    }

    pub fn run(&mut self, jobs: Vec<Job>) {
        let known = load_known();
        for j in jobs {
            eprintln!("[{}] job {} ...", self.prop, j.name);
            match (j.run)() {
                JobReport::Explore(mut r) => {
                    eprintln!(
                        "[{}]   {} states {} transitions {} accepted, depth {}/{}, {:.1}s{}",
                        self.prop,
                        r.states,
                        r.transitions,
                        r.accepted,
                        r.completed_depth,
                        r.depth_bound,
                        r.wall_s,
                        if r.caps_hit.is_empty() { String::new() } else { format!(" CAPS: {:?}", r.caps_hit) }
                    );
                    if r.seeds_total > 0 && r.seeds_skipped == r.seeds_total {
                        self.machinery_errors.push(format!("job {}: no seed state could be built", r.job));
                    }
                    self.states += r.states;
                    self.transitions += r.transitions;
                    self.validated += r.validated;
                    self.evaluations += r.transitions;
                    self.distinct_nontrivial += r.states;
                    self.exhaustive &= r.exhaustive;
                    for s in r.samples.iter().take(3) {
                        self.samples.push(json!({"job": r.job, "case": s}));
                    }
                    let viols = std::mem::take(&mut r.viols);
                    let keyed = std::mem::take(&mut r.keyed);
                    for (job, kind) in self.required_ok.clone() {
                        if job == r.job && r.outcomes.get(&format!("{kind}:ok")).copied().unwrap_or(0) == 0 {
                            self.machinery_errors.push(format!("vacuity: op kind {kind} was never accepted in job {job}"));
                        }
                    }
                    for (job, cn) in self.required_counters.clone() {
                        if job == r.job && r.counters.get(&cn).copied().unwrap_or(0) == 0 && r.outcomes.get(&cn).copied().unwrap_or(0) == 0 {
                            self.machinery_errors.push(format!("vacuity: counter {cn} is 0 in job {job}"));
                        }
                    }
                    self.rules.push(format!("{}: BFS over every enabled operation of every reached state to depth {} (states de-duplicated by full chain storage + block time + ghost ledger)", r.job, r.completed_depth));
                    self.jobs.push(serde_json::to_value(&r).unwrap());
                    self.absorb(&j.name, viols, keyed, &known);
                }
                JobReport::Grid(mut r) => {
                    eprintln!("[{}]   grid {} points, {} non-trivial, {:.1}s", self.prop, r.points, r.distinct_nontrivial, r.wall_s);
                    self.evaluations += r.points;
                    self.transitions += r.points;
                    self.states += r.distinct_nontrivial;
                    self.validated += r.points;
                    self.distinct_nontrivial += r.distinct_nontrivial;
                    for s in r.samples.iter().take(2) {
                        self.samples.push(json!({"job": r.job, "case": s}));
                    }
                    let viols = std::mem::take(&mut r.viols);
                    let keyed = std::mem::take(&mut r.keyed);
                    for (job, cn) in self.required_counters.clone() {
                        if job == r.job && r.counters.get(&cn).copied().unwrap_or(0) == 0 && r.outcomes.get(&cn).copied().unwrap_or(0) == 0 {
                            self.machinery_errors.push(format!("vacuity: counter {cn} is 0 in job {job}"));
                        }
                    }
                    self.rules.push(format!("{}: {}", r.job, r.rule));
                    self.jobs.push(serde_json::to_value(&r).unwrap());
                    self.absorb(&j.name, viols, keyed, &known);
                }
            }
        }
    }

    /// Writes evidence + replay files, prints verdict lines, returns the process exit code.
    pub fn finish(self) -> i32 {
        let known = load_known();
        let evdir = std::env::var("VERIF_EVIDENCE_DIR").unwrap_or(format!("{}/evidence", verif_dir()));
        let _ = std::fs::create_dir_all(&evdir);
        let _ = std::fs::create_dir_all(format!("{}/replays", verif_dir()));
        let mut kf_lines = vec![];
        for f in known.findings.iter().filter(|f| f.property == self.prop) {
            if let Some(keys) = self.known_hits.get(&f.id) {
                kf_lines.push(format!("KNOWN-FINDING: property={} {} {} [{}] ({}/{} listed witnesses reproduced in this tier)", self.prop, f.id, f.what, f.call_site, keys.len(), f.keys.len()));
            }
        }
        let mut viol_lines = vec![];
        let mut nviol = 0u64;
        for (job, r, n) in &self.unlisted {
            nviol += n;
            let mut h = std::collections::hash_map::DefaultHasher::new();
            use std::hash::{Hash, Hasher};
            format!("{}{}{}{}", job, r.kind, r.history, r.op).hash(&mut h);
            let path = format!("{}/replays/{}-{}-{:08x}.json", verif_dir(), self.prop, r.kind, h.finish() as u32);
            let file = json!({"property": self.prop, "tier": self.tier.s(), "job": job, "kind": r.kind, "detail": r.detail, "seed": r.seed, "history": r.history, "op": r.op, "count_in_run": n, "kf_key": r.kf_key});
            std::fs::write(&path, serde_json::to_string_pretty(&file).unwrap()).unwrap();
            viol_lines.push(format!("VIOLATION property={} replay={}", self.prop, path));
            eprintln!("[{}] violation kind={} x{} job={} :: {}", self.prop, r.kind, n, job, &r.detail.chars().take(700).collect::<String>());
        }
        let mut coverage = json!({
            "states": self.states.max(1),
            "transitions": self.transitions.max(1),
            "traces_validated_against_impl": self.validated,
            "evaluations": self.evaluations.max(1),
            "distinct_nontrivial": self.distinct_nontrivial,
            "rule": self.rules.join(" | "),
            "samples": self.samples,
            "exhaustive": self.exhaustive,
            "jobs": self.jobs,
            "known_findings_reproduced": self.known_hits.iter().map(|(k, v)| (k.clone(), v.len())).collect::<BTreeMap<_, _>>(),
            "explanation": "every transition and grid point is an execution of the real contract code (native build) through its public messages; traces_validated_against_impl counts those additionally compared with a reference model, exact-arithmetic oracle or twin run",
        });
        if self.samples.is_empty() {
            coverage["samples"] = json!(["(no samples)"]);
        }
        let ev = json!({
            "property_id": self.prop,
            "tier": self.tier.s(),
            "seed": self.seed,
            "level": self.level,
            "coverage": coverage,
            "assumptions": self.assumptions,
            "wall_s": self.t0.elapsed().as_secs_f64(),
            "violations": nviol,
            "subject_digest": std::env::var("VERIF_SUBJECT_DIGEST").unwrap_or_default(),
            "machinery_errors": self.machinery_errors,
        });
        let tmp = format!("{evdir}/{}.json.tmp", self.prop);
        std::fs::write(&tmp, serde_json::to_string_pretty(&ev).unwrap()).unwrap();
        std::fs::rename(&tmp, format!("{evdir}/{}.json", self.prop)).unwrap();
        for l in &kf_lines {
            println!("{l}");
        }
        if !self.machinery_errors.is_empty() {
            for m in &self.machinery_errors {
                eprintln!("MACHINERY ERROR: {m}");
            }
            return 2;
        }
        if !viol_lines.is_empty() {
            for l in &viol_lines {
                println!("{l}");
            }
            return 1;
        }
        println!("OK property={} tier={} states={} transitions={} validated={} wall={:.1}s", self.prop, self.tier.s(), self.states, self.transitions, self.validated, self.t0.elapsed().as_secs_f64());
        0
    }
}
