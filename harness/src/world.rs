//! The closed world: the four real contracts on cw-multi-test over a cloneable storage, with
//! fault-injecting bank / token-factory wrappers. See DESIGN.md §1.2.
use std::cell::{Cell, RefCell};
use std::collections::BTreeMap;
use std::rc::Rc;

use anyhow::Result as AnyResult;
use cosmwasm_std::{
    coin, Addr, AnyMsg, Api, BankMsg, BankQuery, Binary, BlockInfo, Coin, CustomMsg, CustomQuery,
    Decimal, Empty, GrpcQuery, Order, Querier, Record, Storage, Timestamp, Uint128, Uint64,
};
use cw_multi_test::{
    App, AppBuilder, AppResponse, Bank, BankKeeper, BankSudo, Contract, ContractWrapper,
    CosmosRouter, DistributionKeeper, Executor, FailingModule, GovFailingModule, IbcFailingModule,
    MockApiBech32, Module, StakeKeeper, Stargate, WasmKeeper,
};
use mantra_common_testing::multi_test::stargate_mock::StargateMock;
use mantra_dex_std::epoch_manager::EpochConfig;
use serde::de::DeserializeOwned;
use serde::Serialize;

#[derive(Default, Clone, PartialEq, Eq, Debug, Hash)]
pub struct SnapStorage {
    pub data: BTreeMap<Vec<u8>, Vec<u8>>,
}

impl Storage for SnapStorage {
    fn get(&self, key: &[u8]) -> Option<Vec<u8>> {
        self.data.get(key).cloned()
    }
    fn set(&mut self, key: &[u8], value: &[u8]) {
        self.data.insert(key.to_vec(), value.to_vec());
    }
    fn remove(&mut self, key: &[u8]) {
        self.data.remove(key);
    }
    fn range<'a>(
        &'a self,
        start: Option<&[u8]>,
        end: Option<&[u8]>,
        order: Order,
    ) -> Box<dyn Iterator<Item = Record> + 'a> {
        use std::ops::Bound;
        let s = start.map_or(Bound::Unbounded, |x| Bound::Included(x.to_vec()));
        let e = end.map_or(Bound::Unbounded, |x| Bound::Excluded(x.to_vec()));
        if let (Bound::Included(a), Bound::Excluded(b)) = (&s, &e) {
            if a > b {
                return Box::new(std::iter::empty());
            }
        }
        let it = self.data.range((s, e)).map(|(k, v)| (k.clone(), v.clone()));
        match order {
            Order::Ascending => Box::new(it),
            Order::Descending => Box::new(it.rev()),
        }
    }
}

/// Shared fault plan: counts environment calls (bank exec/sudo + token-factory exec) and fails
/// the calls whose 1-based index is in `fail_at`.
#[derive(Clone, Default)]
pub struct FaultPlan {
    pub counter: Rc<Cell<u32>>,
    pub fail_at: Rc<RefCell<Vec<u32>>>,
    pub log: Rc<RefCell<Vec<String>>>,
    pub logging: Rc<Cell<bool>>,
}

impl FaultPlan {
    fn tick(&self, what: impl FnOnce() -> String) -> AnyResult<()> {
        let n = self.counter.get() + 1;
        self.counter.set(n);
        let fail = self.fail_at.borrow().contains(&n);
        if self.logging.get() || fail {
            let s = what();
            if self.logging.get() {
                self.log.borrow_mut().push(s.clone());
            }
            if fail {
                anyhow::bail!("INJECTED FAULT at call {n}: {s}");
            }
        }
        Ok(())
    }
    pub fn reset(&self, fail_at: &[u32]) {
        self.counter.set(0);
        *self.fail_at.borrow_mut() = fail_at.to_vec();
        self.log.borrow_mut().clear();
    }
    pub fn calls(&self) -> u32 {
        self.counter.get()
    }
}

pub struct FaultBank {
    pub inner: BankKeeper,
    pub plan: FaultPlan,
}

impl Module for FaultBank {
    type ExecT = BankMsg;
    type QueryT = BankQuery;
    type SudoT = BankSudo;

    fn execute<ExecC, QueryC>(
        &self,
        api: &dyn Api,
        storage: &mut dyn Storage,
        router: &dyn CosmosRouter<ExecC = ExecC, QueryC = QueryC>,
        block: &BlockInfo,
        sender: Addr,
        msg: BankMsg,
    ) -> AnyResult<AppResponse>
    where
        ExecC: CustomMsg + DeserializeOwned + 'static,
        QueryC: CustomQuery + DeserializeOwned + 'static,
    {
        self.plan.tick(|| format!("bank.exec {sender} {msg:?}"))?;
        self.inner.execute(api, storage, router, block, sender, msg)
    }

    fn query(
        &self,
        api: &dyn Api,
        storage: &dyn Storage,
        querier: &dyn Querier,
        block: &BlockInfo,
        request: BankQuery,
    ) -> AnyResult<Binary> {
        self.inner.query(api, storage, querier, block, request)
    }

    fn sudo<ExecC, QueryC>(
        &self,
        api: &dyn Api,
        storage: &mut dyn Storage,
        router: &dyn CosmosRouter<ExecC = ExecC, QueryC = QueryC>,
        block: &BlockInfo,
        msg: BankSudo,
    ) -> AnyResult<AppResponse>
    where
        ExecC: CustomMsg + DeserializeOwned + 'static,
        QueryC: CustomQuery + DeserializeOwned + 'static,
    {
        self.plan.tick(|| format!("bank.sudo {msg:?}"))?;
        self.inner.sudo(api, storage, router, block, msg)
    }
}
impl Bank for FaultBank {}

pub struct FaultStargate {
    pub inner: StargateMock,
    pub plan: FaultPlan,
}

impl Stargate for FaultStargate {
    fn execute_any<ExecC, QueryC>(
        &self,
        api: &dyn Api,
        storage: &mut dyn Storage,
        router: &dyn CosmosRouter<ExecC = ExecC, QueryC = QueryC>,
        block: &BlockInfo,
        sender: Addr,
        msg: AnyMsg,
    ) -> AnyResult<AppResponse>
    where
        ExecC: CustomMsg + DeserializeOwned + 'static,
        QueryC: CustomQuery + DeserializeOwned + 'static,
    {
        self.plan.tick(|| format!("tf.exec {sender} {}", msg.type_url))?;
        self.inner.execute_any(api, storage, router, block, sender, msg)
    }
    fn query_stargate(
        &self,
        api: &dyn Api,
        storage: &dyn Storage,
        querier: &dyn Querier,
        block: &BlockInfo,
        path: String,
        data: Binary,
    ) -> AnyResult<Binary> {
        self.inner.query_stargate(api, storage, querier, block, path, data)
    }
    fn query_grpc(
        &self,
        api: &dyn Api,
        storage: &dyn Storage,
        querier: &dyn Querier,
        block: &BlockInfo,
        request: GrpcQuery,
    ) -> AnyResult<Binary> {
        self.inner.query_grpc(api, storage, querier, block, request)
    }
}

pub type DexApp = App<
    FaultBank,
    MockApiBech32,
    SnapStorage,
    FailingModule<Empty, Empty, Empty>,
    WasmKeeper<Empty, Empty>,
    StakeKeeper,
    DistributionKeeper,
    IbcFailingModule,
    GovFailingModule,
    FaultStargate,
>;

fn c_pool() -> Box<dyn Contract<Empty>> {
    Box::new(
        ContractWrapper::new_with_empty(
            pool_manager::contract::execute,
            pool_manager::contract::instantiate,
            pool_manager::contract::query,
        )
        .with_reply(pool_manager::contract::reply),
    )
}
fn c_fee() -> Box<dyn Contract<Empty>> {
    Box::new(ContractWrapper::new(
        fee_collector::contract::execute,
        fee_collector::contract::instantiate,
        fee_collector::contract::query,
    ))
}
fn c_epoch() -> Box<dyn Contract<Empty>> {
    Box::new(ContractWrapper::new(
        epoch_manager::contract::execute,
        epoch_manager::contract::instantiate,
        epoch_manager::contract::query,
    ))
}
fn c_farm() -> Box<dyn Contract<Empty>> {
    Box::new(
        ContractWrapper::new(
            farm_manager::contract::execute,
            farm_manager::contract::instantiate,
            farm_manager::contract::query,
        )
        .with_reply(farm_manager::contract::reply),
    )
}

thread_local! {
    /// true while a contract entry point runs under catch_unwind (its panics are VM traps, not ours)
    pub static IN_CONTRACT: Cell<bool> = Cell::new(false);
}
pub fn trap<R>(f: impl FnOnce() -> R) -> Result<R, ()> {
    let prev = IN_CONTRACT.with(|c| c.replace(true));
    let r = std::panic::catch_unwind(std::panic::AssertUnwindSafe(f));
    IN_CONTRACT.with(|c| c.set(prev));
    r.map_err(|_| ())
}

pub const GENESIS: u64 = 1_714_057_200;
pub const DAY: u64 = 86_400;

/// Everything that parameterises a deployment.
#[derive(Clone, Debug)]
pub struct WorldCfg {
    pub n_users: usize,
    pub balances: Vec<Coin>,
    pub tf_fee: Vec<Coin>,
    pub farm_fee: Coin,
    pub pool_fee: Coin,
    pub max_concurrent_farms: u32,
    pub min_unlocking: u64,
    pub max_unlocking: u64,
    pub penalty: Decimal,
    pub farm_expiration: u64,
    pub epoch_duration: u64,
    pub epoch_genesis: u64,
    pub start_time: u64,
}

impl Default for WorldCfg {
    fn default() -> Self {
        WorldCfg {
            n_users: 4,
            balances: vec![
                coin(10u128.pow(36), "uom"),
                coin(10u128.pow(36), "uusd"),
                coin(10u128.pow(36), "uusdc"),
                coin(10u128.pow(37), "ausdy"),
                coin(10u128.pow(36), "uweth"),
            ],
            tf_fee: vec![coin(8888, "uom")],
            farm_fee: coin(1000, "uom"),
            pool_fee: coin(1000, "uusd"),
            max_concurrent_farms: 2,
            min_unlocking: DAY,
            max_unlocking: 31_556_926,
            penalty: Decimal::percent(10),
            farm_expiration: mantra_dex_std::constants::MONTH_IN_SECONDS,
            epoch_duration: DAY,
            epoch_genesis: GENESIS,
            start_time: GENESIS,
        }
    }
}

pub struct World {
    pub app: DexApp,
    pub plan: FaultPlan,
    pub users: Vec<Addr>,
    pub fee_collector: Addr,
    pub pool_manager: Addr,
    pub farm_manager: Addr,
    pub epoch_manager: Addr,
    /// the account that instantiated the epoch manager and the farm manager (their owner is named in the message)
    pub deployer: Addr,
    pub tf_fee: Vec<Coin>,
}

#[derive(Clone, PartialEq, Eq, Debug)]
pub struct Snapshot {
    pub storage: SnapStorage,
    pub time_nanos: u64,
}

/// Outcome class of a message. Error text is kept for diagnostics only and never compared.
#[derive(Debug)]
pub enum Outcome {
    Ok(AppResponse),
    Rejected(String),
    Trapped,
}
impl Outcome {
    pub fn is_ok(&self) -> bool {
        matches!(self, Outcome::Ok(_))
    }
    pub fn class(&self) -> &'static str {
        match self {
            Outcome::Ok(_) => "ok",
            Outcome::Rejected(_) => "rejected",
            Outcome::Trapped => "trapped",
        }
    }
    pub fn err_text(&self) -> String {
        match self {
            Outcome::Ok(_) => String::new(),
            Outcome::Rejected(s) => s.clone(),
            Outcome::Trapped => "TRAP (panic in contract)".into(),
        }
    }
    pub fn attr(&self, key: &str) -> Option<String> {
        if let Outcome::Ok(r) = self {
            for e in &r.events {
                for a in &e.attributes {
                    if a.key == key {
                        return Some(a.value.clone());
                    }
                }
            }
        }
        None
    }
    pub fn attrs(&self, key: &str) -> Vec<String> {
        let mut v = vec![];
        if let Outcome::Ok(r) = self {
            for e in &r.events {
                for a in &e.attributes {
                    if a.key == key {
                        v.push(a.value.clone());
                    }
                }
            }
        }
        v
    }
}

fn build_app(storage: SnapStorage, plan: FaultPlan, tf_fee: Vec<Coin>) -> DexApp {
    let mut app = AppBuilder::new()
        .with_api(MockApiBech32::new("mantra"))
        .with_wasm(WasmKeeper::default())
        .with_bank(FaultBank { inner: BankKeeper::new(), plan: plan.clone() })
        .with_storage(storage)
        .with_stargate(FaultStargate { inner: StargateMock::new(tf_fee), plan })
        .build(|_, _, _| {});
    // code ids must be stable across rebuilds
    assert_eq!(app.store_code(c_epoch()), 1);
    assert_eq!(app.store_code(c_fee()), 2);
    assert_eq!(app.store_code(c_farm()), 3);
    assert_eq!(app.store_code(c_pool()), 4);
    app
}

pub fn user_addr(i: usize) -> Addr {
    MockApiBech32::new("mantra").addr_make(&format!("user{i}"))
}

impl World {
    pub fn new(cfg: &WorldCfg) -> World {
        let plan = FaultPlan::default();
        let mut app = build_app(SnapStorage::default(), plan.clone(), cfg.tf_fee.clone());
        let users: Vec<Addr> = (0..cfg.n_users).map(user_addr).collect();
        app.init_modules(|router, _, storage| {
            for u in &users {
                router.bank.inner.init_balance(storage, u, cfg.balances.clone()).unwrap();
            }
        });
        let mut b = app.block_info();
        b.time = Timestamp::from_seconds(cfg.start_time);
        b.height = 1;
        app.set_block(b);
        let owner = users[0].clone();
        // the epoch manager and the farm manager name their owner in the instantiate message: they are deployed by a
        // separate account (which must end up with no rights), the other two take the instantiating account as owner
        let deployer = app.api().addr_make("deployer");
        let epoch_manager = app
            .instantiate_contract(
                1,
                deployer.clone(),
                &mantra_dex_std::epoch_manager::InstantiateMsg {
                    owner: owner.to_string(),
                    epoch_config: EpochConfig {
                        duration: Uint64::new(cfg.epoch_duration),
                        genesis_epoch: Uint64::new(cfg.epoch_genesis),
                    },
                },
                &[],
                "epoch",
                None,
            )
            .unwrap();
        let fee_collector = app
            .instantiate_contract(2, owner.clone(), &mantra_dex_std::fee_collector::InstantiateMsg {}, &[], "fee", None)
            .unwrap();
        let farm_manager = app
            .instantiate_contract(
                3,
                deployer.clone(),
                &mantra_dex_std::farm_manager::InstantiateMsg {
                    owner: owner.to_string(),
                    epoch_manager_addr: epoch_manager.to_string(),
                    fee_collector_addr: fee_collector.to_string(),
                    pool_manager_addr: "".to_string(),
                    create_farm_fee: cfg.farm_fee.clone(),
                    max_concurrent_farms: cfg.max_concurrent_farms,
                    max_farm_epoch_buffer: 14,
                    min_unlocking_duration: cfg.min_unlocking,
                    max_unlocking_duration: cfg.max_unlocking,
                    farm_expiration_time: cfg.farm_expiration,
                    emergency_unlock_penalty: cfg.penalty,
                },
                &[],
                "farm",
                None,
            )
            .unwrap();
        let pool_manager = app
            .instantiate_contract(
                4,
                owner.clone(),
                &mantra_dex_std::pool_manager::InstantiateMsg {
                    fee_collector_addr: fee_collector.to_string(),
                    farm_manager_addr: farm_manager.to_string(),
                    pool_creation_fee: cfg.pool_fee.clone(),
                },
                &[],
                "pool",
                None,
            )
            .unwrap();
        app.execute_contract(
            owner.clone(),
            farm_manager.clone(),
            &mantra_dex_std::farm_manager::ExecuteMsg::UpdateConfig {
                fee_collector_addr: None,
                epoch_manager_addr: None,
                pool_manager_addr: Some(pool_manager.to_string()),
                create_farm_fee: None,
                max_concurrent_farms: None,
                max_farm_epoch_buffer: None,
                min_unlocking_duration: None,
                max_unlocking_duration: None,
                farm_expiration_time: None,
                emergency_unlock_penalty: None,
            },
            &[],
        )
        .unwrap();
        World { app, plan, users, fee_collector, pool_manager, farm_manager, epoch_manager, deployer, tf_fee: cfg.tf_fee.clone() }
    }

    /// address of the pool manager (deterministic: fourth contract instantiated)
    pub fn pool_manager_addr() -> String {
        use std::sync::OnceLock;
        static A: OnceLock<String> = OnceLock::new();
        A.get_or_init(|| World::new(&WorldCfg { n_users: 1, ..Default::default() }).pool_manager.to_string()).clone()
    }

    pub fn snapshot(&self) -> Snapshot {
        Snapshot { storage: self.app.storage().clone(), time_nanos: self.app.block_info().time.nanos() }
    }

    pub fn restore(&mut self, s: &Snapshot) {
        let mut app = build_app(s.storage.clone(), self.plan.clone(), self.tf_fee.clone());
        let mut b = app.block_info();
        b.time = Timestamp::from_nanos(s.time_nanos);
        b.height = 1;
        app.set_block(b);
        self.app = app;
        self.plan.reset(&[]);
    }

    pub fn now(&self) -> u64 {
        self.app.block_info().time.seconds()
    }
    pub fn now_nanos(&self) -> u64 {
        self.app.block_info().time.nanos()
    }
    pub fn set_time_nanos(&mut self, n: u64) {
        let mut b = self.app.block_info();
        b.time = Timestamp::from_nanos(n);
        self.app.set_block(b);
    }
    pub fn set_time(&mut self, secs: u64) {
        self.set_time_nanos(secs * 1_000_000_000);
    }
    pub fn advance(&mut self, secs: u64) {
        let n = self.now_nanos() + secs * 1_000_000_000;
        self.set_time_nanos(n);
    }

    pub fn balance(&self, who: &Addr, denom: &str) -> u128 {
        self.app.wrap().query_balance(who, denom).unwrap().amount.u128()
    }
    pub fn supply(&self, denom: &str) -> u128 {
        self.app.wrap().query_supply(denom).unwrap().amount.u128()
    }
    pub fn lp(&self, id: &str) -> String {
        format!("factory/{}/{}.LP", self.pool_manager, id)
    }

    /// Execute a message on the real contract; a panic inside the contract is a VM trap.
    pub fn exec<T: Serialize + std::fmt::Debug>(&mut self, sender: &Addr, contract: &Addr, msg: &T, funds: &[Coin]) -> Outcome {
        let mut f = funds.to_vec();
        f.sort_by(|a, b| a.denom.cmp(&b.denom));
        let app = &mut self.app;
        let r = trap(|| app.execute_contract(sender.clone(), contract.clone(), msg, &f));
        match r {
            Ok(Ok(resp)) => Outcome::Ok(resp),
            Ok(Err(e)) => Outcome::Rejected(format!("{:#}", e)),
            Err(_) => Outcome::Trapped,
        }
    }
    pub fn bank_send(&mut self, sender: &Addr, to: &Addr, funds: &[Coin]) -> Outcome {
        match self.app.send_tokens(sender.clone(), to.clone(), funds) {
            Ok(r) => Outcome::Ok(r),
            Err(e) => Outcome::Rejected(format!("{:#}", e)),
        }
    }
    /// Query; Err(text) for a contract error, Err("TRAP") for a panic.
    pub fn query<T: DeserializeOwned, M: Serialize>(&self, contract: &Addr, msg: &M) -> Result<T, String> {
        let app = &self.app;
        let r = trap(|| app.wrap().query_wasm_smart::<T>(contract.clone(), msg));
        match r {
            Ok(Ok(v)) => Ok(v),
            Ok(Err(e)) => Err(e.to_string()),
            Err(_) => Err("TRAP".into()),
        }
    }
    /// All bank balances of an account (sorted by denom).
    pub fn all_balances(&self, who: &Addr) -> Vec<Coin> {
        #[allow(deprecated)]
        let mut v = self.app.wrap().query_all_balances(who).unwrap();
        v.sort_by(|a, b| a.denom.cmp(&b.denom));
        v
    }
}

pub fn u(a: u128) -> Uint128 {
    Uint128::new(a)
}
