#!/usr/bin/env bash
# runs every property's check in the given tier; prints one status line each
tier="${1:-quick}"
cd "$(dirname "${BASH_SOURCE[0]}")"
for i in $(seq -w 1 20); do
  id="C$i"
  s=$(date +%s.%N)
  out=$(./check "$id" "$tier" 2>/dev/null); rc=$?
  e=$(date +%s.%N)
  printf "%s rc=%d %6.1fs  %s\n" "$id" "$rc" "$(echo "$e - $s" | bc)" "$(echo "$out" | grep -c '^VIOLATION') viol, $(echo "$out" | grep -c '^KNOWN-FINDING') known; $(echo "$out" | grep '^OK' | cut -c1-120)"
done
