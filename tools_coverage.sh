#!/usr/bin/env bash
# developer tool (not a registered check): which lines of the four contracts do the quick checks execute?
# Builds the checker with the nightly toolchain and -C instrument-coverage into a scratch target dir, runs the 20 quick
# checks (one single-threaded process per property, in parallel: shared counters make a multi-threaded instrumented run
# ~50x slower), merges the profiles and writes coverage/REPORT.md (+ coverage/unexecuted.txt). Scratch output under /tmp is
# removed at the end. Build scripts run instrumented too and drop default_*.profraw files next to the contracts' Cargo.toml;
# they are deleted again (never `git add -A` in /repo).
set -u
VDIR="$(cd "$(dirname "${BASH_SOURCE[0]}")" && pwd)"
T=/tmp/verif-cov-target; P=/tmp/verif-cov; rm -rf "$P"; mkdir -p "$P"
B="$(dirname "$(rustup which --toolchain nightly rustc)")/../lib/rustlib/x86_64-unknown-linux-gnu/bin"
(cd "$VDIR/harness" && LLVM_PROFILE_FILE="$P/build-%p-%m.profraw" RUSTUP_TOOLCHAIN=nightly RUSTFLAGS="-C instrument-coverage" CARGO_TARGET_DIR=$T CARGO_NET_OFFLINE=true cargo build --release --offline 2>&1 | tail -1) || exit 2
find /repo -name 'default_*.profraw' -not -path '*/target/*' -delete
rm -f "$P"/build-*.profraw
export VERIF_DIR="$VDIR" RUST_BACKTRACE=0 VERIF_SUBJECT_DIGEST=coverage RAYON_NUM_THREADS=1
for i in $(seq -w 1 20); do
  ( VERIF_EVIDENCE_DIR="$P/ev-$i" LLVM_PROFILE_FILE="$P/C$i-%p.profraw" "$T/release/mcheck" C$i --tier quick > "$P/C$i.log" 2>&1; echo "C$i rc=$?" ) &
done
wait
"$B/llvm-profdata" merge -sparse "$P"/C*.profraw -o "$P/all.profdata" || exit 2
IGN='(registry|rustc|/verif/|rustup|/tests/)'
mkdir -p "$VDIR/coverage"
"$B/llvm-cov" show "$T/release/mcheck" -instr-profile="$P/all.profdata" --ignore-filename-regex="$IGN" --show-line-counts-or-regions=false -format=text > "$P/show.txt" 2>/dev/null
python3 - "$P/show.txt" "$VDIR/coverage" <<'PY'
import re, sys, collections
show, out = sys.argv[1], sys.argv[2]
cur = None; tot = collections.Counter(); miss = collections.defaultdict(list)
for line in open(show):
    if line.startswith('/') and line.rstrip().endswith(':'):
        cur = line.strip()[:-1]; continue
    m = re.match(r'\s*(\d+)\|\s*([0-9.kMGE]*)\|(.*)', line)
    if m and cur and m.group(2) != '':
        tot[cur] += 1
        if m.group(2) == '0': miss[cur].append((int(m.group(1)), m.group(3)))
rows = []
for f in sorted(tot):
    if not f.startswith('/repo/contracts'): continue
    rows.append((f.replace('/repo/', ''), tot[f], len(miss[f])))
with open(out + '/REPORT.md', 'w') as o:
    o.write("# Contract lines executed by the 20 quick checks\n\nProduced by `tools_coverage.sh` (instrumented build of the checker; executable lines as counted by llvm-cov).\n`unexecuted.txt` lists every line never executed. What remains is dead / defensive code (error arms of `?`, `migrate`,\nqueries no property mentions: `AssetDecimals`, stableswap `ReverseSimulation`, `ReverseSimulateSwapOperations`, farm / position listings by\nother keys) — see DESIGN.md §4.\n\n| file | executable lines | never executed | executed |\n|---|---|---|---|\n")
    T = M = 0
    for f, t, m in rows:
        o.write(f"| {f} | {t} | {m} | {100*(t-m)/t:.1f} % |\n"); T += t; M += m
    o.write(f"| **total** | {T} | {M} | {100*(T-M)/T:.1f} % |\n")
with open(out + '/unexecuted.txt', 'w') as o:
    for f in sorted(miss):
        if not f.startswith('/repo/contracts'): continue
        o.write(f"== {f.replace('/repo/', '')}\n")
        for ln, src in miss[f]: o.write(f"{ln}\t{src.rstrip()[:140]}\n")
print(open(out + '/REPORT.md').read())
PY
rm -rf "$T" "$P"
