#!/usr/bin/env bash
# developer tool: mutant matrix + regression of all stored seeded changes (quick tier), concurrently; results in
# mutants/RESULTS.md and seeded/RESULTS.md
cd "$(dirname "${BASH_SOURCE[0]}")"
./mutants/matrix.sh > /tmp/verif-matrix.log 2>&1 &
./seeded/regress.sh
wait
echo "matrix + regression done"
