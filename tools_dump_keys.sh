#!/usr/bin/env bash
# developer tool: dumps all keyed violations (ignoring the known-findings file) for the given properties, both tiers,
# into /tmp/kfdump/<ID>-<tier>.txt (dumps of properties not named are kept). Then: python3 tools_gen_known.py /tmp/kfdump/*.txt
mkdir -p /tmp/kfdump
for p in "$@"; do for t in quick thorough; do rm -f /tmp/kfdump/$p-$t.txt; VERIF_NO_KNOWN=1 VERIF_EVIDENCE_DIR=/tmp/kfdump-ev VERIF_DUMP_KEYS=/tmp/kfdump/$p-$t.txt /verif/check $p $t >/dev/null 2>&1; echo "$p $t rc=$? $(cut -f2,3 /tmp/kfdump/$p-$t.txt 2>/dev/null | sort -u | cut -f1 | uniq -c | tr '\n' ' ')"; done; done
