#!/usr/bin/env python3
"""Developer tool: (re)writes the generated tables of DESIGN.md between <!-- BEGIN x --> / <!-- END x --> markers.
usage: tools_fill_design.py <quick evidence dir> <thorough evidence dir> <mutants RESULTS.md>"""
import json, sys, re, glob, os
qdir, tdir, results = sys.argv[1:4]
def ev(d, pid):
    try: return json.load(open(f"{d}/{pid}.json"))
    except Exception: return None
rows = ["| property | quick: states / transitions / validated / wall | thorough: states / transitions / validated / wall | explorations (completed depth) and grids, thorough tier |", "|---|---|---|---|"]
for i in range(1, 21):
    pid = f"C{i:02d}"
    q, t = ev(qdir, pid), ev(tdir, pid)
    def cell(e):
        if not e: return "—"
        c = e["coverage"]
        return f"{c['states']:,} / {c['transitions']:,} / {c['traces_validated_against_impl']:,} / {e['wall_s']:.0f} s"
    jobs = []
    for j in (t or q or {"coverage": {"jobs": []}})["coverage"]["jobs"]:
        if "depth_bound" in j:
            jobs.append(f"{j['job']} (d{j['completed_depth']}: {j['states']:,} st)" + (" CAPPED" if j.get("caps_hit") else ""))
        else:
            jobs.append(f"{j['job']} ({j['points']:,} pts)")
    rows.append(f"| {pid} | {cell(q)} | {cell(t)} | {'; '.join(jobs)} |")
cov = "\n".join(rows)
# mutants
mrows = ["| mutant | what it does | reported by (quick) |", "|---|---|---|"]
desc = {}
for l in open("/verif/design-notes/mutants/README.md"):
    m = re.match(r"\| (M\d+) \| [^|]* \| ([^|]*) \|", l)
    if m: desc[m.group(1)] = m.group(2).strip()
desc["M39"] = "emergency path still taken at the exact unlock second (penalty 0 for any non-empty position; a position closed with 0 LP then divides by zero)"
desc.update({"revert-P1": "reverse of fix fcc4753 (claim with until_epoch back-dates weights)", "revert-P2": "reverse of fix ca93368 (close removes more total weight than user weight)", "revert-P3": "reverse of fix 78e4741 (zero farm fee needs two coins)", "revert-P4": "reverse of fix e63898f (stableswap spread in offer precision)",
             "revert-P7": "reverse of fix bcca75a (D iteration stops at a 1-token step)", "revert-P8": "reverse of fix 6260abc (reverse quote through an 18-digit inverse)", "revert-P10": "reverse of fix 9137e66 (withdrawal through an 18-digit ratio)", "revert-P11": "reverse of fix bb38aab (spread from an 18-digit exchange rate)", "revert-P12": "reverse of fix 2068212 (deposit tolerance check sorts the stored reserve list in place)", "revert-P14": "reverse of fix 7f37b43 (first epoch of a late-staked LP token left out of the contract weights)"})
det = {}
for l in open(results):
    m = re.match(r"(\S+)\.patch (C\d+) (DETECTED|MISSED|ERROR)", l)
    if m and not l.startswith(("M25", "M77", "M79", "M80", "M47", "M29")):
        det.setdefault(m.group(1), []).append(f"{m.group(2)} {'✓' if m.group(3)=='DETECTED' else m.group(3)}")
for k, v in det.items():
    mrows.append(f"| {k} | {desc.get(k, '')} | {', '.join(v)} |")
ctl = []
for l in open(results):
    if l.startswith(("M25", "M77", "M79", "M80", "M47", "M29")):
        name = l.split(".patch")[0]
        n = l.count("MISSED"); bad = l.count("DETECTED") + l.count("ERROR")
        ctl.append(f"{name}: silent under {n}/20 checks" + (f", **{bad} alarms**" if bad else ""))
mut = "\n".join(mrows) + "\n\nControls: " + "; ".join(ctl) + "."
# seeded: the full table goes to seeded/TABLE.md, DESIGN.md gets the per-round summary
srows = ["| seeded change | breaks | code site | what it needs to manifest | checks that report it (quick) | outcome when first run |", "|---|---|---|---|---|---|"]
rounds = {}
for d in sorted(glob.glob("/verif/seeded/C*") + glob.glob("/verif/seeded/R[0-9]*") + glob.glob("/verif/seeded/S[0-9]*") + glob.glob("/verif/seeded/T[0-9]*") + glob.glob("/verif/seeded/U[0-9]*") + glob.glob("/verif/seeded/V[0-9]*")):
    if not os.path.isdir(d):
        continue
    m = json.load(open(f"{d}/meta.json"))
    name = os.path.basename(d)
    own = m.get("breaks", name[:3]).split()[0]
    detected = "; ".join(f"{k}: {v.split(':',1)[1].strip() if ':' in v else v}"[:170] for k, v in m.get("detected_by", {}).items())
    if "as_built" in m:
        ab = m["as_built"]
        own_ok = ab.get(own, "").upper().startswith("DETECTED")
        other_ok = any(v.upper().startswith("DETECTED") for k, v in ab.items() if k != own)
        first = "as built: " + ", ".join(f"{k} {v.split(' ')[0].lower()}" for k, v in ab.items())
    else:
        late = lambda v: any(x in v for x in ("only after", "first version", "only since"))
        db = m.get("detected_by", {})
        own_ok = own in db and not late(db[own])
        other_ok = any(not late(v) for k, v in db.items() if k != own)
        first = "reported as built" if own_ok else ("as built reported only by another check; alphabet/grid extended" if other_ok else "missed at first, alphabet/grid extended")
    r = m.get("round", 2 if name.endswith("-r2") else 1)
    st = rounds.setdefault(r, [0, 0, 0, 0, 0])
    st[0] += 1
    st[4] += 0 if any(v.startswith("NOT DETECTED") for v in m.get("detected_by", {}).values()) else 1
    st[1] += 1 if own_ok else 0
    st[2] += 1 if (not own_ok and other_ok) else 0
    st[3] += 1 if (not own_ok and not other_ok) else 0
    srows.append(f"| {name} | {own} | {m['site'][:160]} | {m['needs'][:220]} | {detected} | {first} |")
open("/verif/seeded/TABLE.md", "w").write("# Independently seeded changes (generated by tools_fill_design.py from seeded/*/meta.json)\n\n" + "\n".join(srows) + "\n")
sm = ["| round | changes | reported as built by the named property's check | only by another property's check | by none | reported after the extensions |", "|---|---|---|---|---|---|"]
for r in sorted(rounds):
    n, a, b, c, dn = rounds[r]
    label = {1: "1 (one per property)", 2: "2 (different site)", 3: "3 (hard to reach)", 4: "4 (hard to reach, new directions)", 5: "5 (by code region)", 6: "6 (by code region, second pass)", 7: "7 (by theme: interplay, configuration changes)", 8: "8 (by theme, second pass)", 9: "9 (by theme, third pass)"}.get(r, str(r))
    sm.append(f"| {label} | {n} | {a} | {b} | {c} | {dn} |")
tot = [sum(v[i] for v in rounds.values()) for i in range(5)]
sm.append(f"| **total** | {tot[0]} | {tot[1]} | {tot[2]} | {tot[3]} | {tot[4]} |")
seed = "\n".join(sm) + "\n\nPer change (site, trigger, which check reports it with which violation kind, outcome when first run): `seeded/TABLE.md`; regression of all stored changes against their own checks: `seeded/regress.sh` → `seeded/RESULTS.md`."
s = open("/verif/DESIGN.md").read()
for tag, body in [("COVERAGE_TABLE", cov), ("MUTANT_TABLE", mut), ("SEEDED_TABLE", seed)]:
    if f"@@{tag}@@" in s:
        s = s.replace(f"@@{tag}@@", f"<!-- BEGIN {tag} -->\n{body}\n<!-- END {tag} -->")
    else:
        s = re.sub(rf"<!-- BEGIN {tag} -->.*?<!-- END {tag} -->", lambda _: f"<!-- BEGIN {tag} -->\n{body}\n<!-- END {tag} -->", s, flags=re.S)
open("/verif/DESIGN.md", "w").write(s)
print("ok")
