#!/usr/bin/env python3
"""Developer tool (never run by a check): builds /verif/known_findings.json from key dumps produced with
VERIF_DUMP_KEYS on the repaired tree. Usage: tools_gen_known.py <dump files...>"""
import sys, json, collections, subprocess
keys = collections.defaultdict(set)
for f in sys.argv[1:]:
    for l in open(f):
        prop, kind, key = l.rstrip('\n').split('\t', 2)
        keys[(prop, kind)].add(key)
def rec(id, prop, kind, call_site, what):
    ks = sorted(keys.get((prop, kind), []))
    return {"id": id, "property": prop, "kind": kind, "call_site": call_site, "what": what, "keys": ks}
findings = [
    rec("KF-P6-invariant-falls", "C03", "C03_ss_D_decreased_quote_within_tolerance", "contracts/pool-manager/src/helpers.rs compute_swap, StableSwap branch (return = reserve - floor(y), y truncated, precision conversions floor)",
        "stableswap swaps round every step in the trader's favour: the exact invariant D falls on the swap although the quote is within the C19 tolerance (2 ask units + value of 2 offer units) of the exact output; envelope record, anything outside that envelope is still a violation"),
    rec("KF-P6-dust-cycles", "C03", "C03_profitable_cycle_through_rounding_edges", "contracts/pool-manager/src/helpers.rs compute_swap, StableSwap branch",
        "a swap sequence leaves the trader ahead by dust because it runs over edges of KF-P6-invariant-falls (e.g. zero-fee pool [2000,2000] amp 1: 1 unit in, 1 unit out, repeatedly); only attributed when every invariant-reducing edge on the path is inside that envelope"),
    rec("KF-P9-first-deposit-D", "C02", "C02_ss_first_deposit_overmint", "contracts/pool-manager/src/helpers.rs calculate_d_core (chained floor divisions of Newton's D_P) via compute_lp_mint_amount_for_stableswap_deposit",
        "the first stableswap deposit mints a supply (= the D used) more than 2 units above the exact invariant on skewed 3-4 asset / low-amp pools (listed pool states and observed supplies)"),
    rec("KF-P7-mint-D", "C19", "C19_mint_d_inexact", "contracts/pool-manager/src/helpers.rs calculate_d_core",
        "the invariant used for minting differs from the exact root by more than 2 units on the listed pool states (same root cause as KF-P9-first-deposit-D)"),
    rec("KF-P6-dust-pool-quotes", "C19", "C19_quote_inexact", "contracts/pool-manager/src/helpers.rs calculate_stableswap_y / compute_swap precision conversions",
        "on an 18/18-decimals amp-1 pool holding 0.008 token the quote exceeds the tolerance by a few units (listed offers and quotes)"),
    rec("KF-C13-deposit-ratio-precision", "C13", "C13_out_of_tolerance_deposit_accepted", "contracts/pool-manager/src/helpers.rs assert_slippage_tolerance, ConstantProduct branch (both ratios rounded to 18 decimals)",
        "on a pool whose raw reserve ratio exceeds 10^18 one of the two ratio comparisons rounds to 0 > 0 and a deposit at half the pool ratio passes a 0% tolerance; the same comparison judges the deposit leg of a single-asset deposit (listed inputs)"),
    rec("KF-P5-stableswap-deposit-tolerance", "C13", "C13_proportional_deposit_refused", "contracts/pool-manager/src/helpers.rs assert_slippage_tolerance, StableSwap branch (rejects when D_final/D_initial > tolerance, a ratio that is always >= 1)",
        "a stableswap deposit in exact pool proportion is refused under every liquidity_max_slippage (listed pools/tolerances); needs a decision on what the tolerance should measure"),
]
fixed = []
log = subprocess.run(["git", "-C", "/repo", "log", "--format=%h %s", "--grep=^fix:"], capture_output=True, text=True).stdout.strip().split('\n')
PROP = {"claiming with until_epoch": "C06,C07", "closing a position must not remove": "C10,C06", "zero creation fee": "C11", "stableswap slippage amount": "C13",
        "withdrawals pay floor": "C02", "iterate the stableswap invariant": "C19,C02,C03", "constant-product spread": "C12,C13", "reverse simulation": "C12", "must not reorder": "C19,C03", "pay the first epoch": "C07"}
for l in log:
    h, msg = l.split(' ', 1)
    props = next((v for k, v in PROP.items() if k in msg), "?")
    for p in props.split(','):
        fixed.append(f"fixed: property={p} {h} {msg[5:]}")
json.dump({"note": "Hand-maintained (generated once by tools_gen_known.py from VERIF_DUMP_KEYS dumps on the repaired tree; never written by a check). A violation is attributed to a record only if property, kind and the exact key (input + observed output, or the oracle-computed 'envelope' tag) match; everything else is reported as VIOLATION.",
           "findings": findings, "fixed": fixed}, open('/verif/known_findings.json', 'w'), indent=1)
for f in findings: print(f["id"], len(f["keys"]))
print(len(fixed), "fixed entries")
