#!/usr/bin/env python3
"""Regenerates /verif/MANIFEST.json from the table below (kept in one place so it stays valid)."""
import json, sys
CLAIMED = json.load(open('/verif/manifest_claims.json'))
props = [json.loads(l) for l in open('/verif/properties.jsonl')]
checks, na = [], []
for p in props:
    pid = p['id']
    c = CLAIMED.get(pid)
    if c is None or c.get('not_applicable'):
        na.append({"property_id": pid, "reason": (c or {}).get('not_applicable', 'check not built yet in this session; no claim is made')})
        continue
    checks.append({
        "property_id": pid,
        "quick_cmd": f"./check {pid} quick",
        "thorough_cmd": f"./check {pid} thorough",
        "evidence_file": f"/verif/evidence/{pid}.json",
        "replay_cmd_template": "./check replay {path}",
        "engine": "mcheck",
        "level_claimed": {"category": c['level'], "text": c['text'], "design_ref": c['design_ref']},
        "level_note": c['note'],
        "technique": c['technique'],
    })
m = {
    "version": 1,
    "setup_cmd": "./check build",
    "hooks": {
        "guard": "mantra_dex_verif",
        "enable": "none needed: the checker links the unmodified contract crates from /repo's working tree (path dependencies) and observes them through public messages, queries and raw chain storage",
        "baseline_off_cmd": "cd /repo && cargo nextest run --workspace --no-fail-fast --tool-config-file pb:/w/lib/nextest.toml --profile pb --test-threads 8 --offline",
        "source_commits": [],
        "add_only": True,
    },
    "engines": [{
        "name": "mcheck",
        "path": "/verif/harness",
        "serves_properties": [c['property_id'] for c in checks],
        "kind_free_text": "explicit-state breadth-first model checker over the real contracts (native build on cw-multi-test with cloneable storage, fault-injecting bank/token-factory), plus exhaustive input grids against exact big-integer oracles",
    }],
    "checks": checks,
    "not_applicable": na,
    "notes": "Every check rebuilds the checker from /repo's working tree (./check, digest-protected). Exit 0 held / 1 VIOLATION / 2 machinery error. Known findings: /verif/known_findings.json.",
}
json.dump(m, open('/verif/MANIFEST.json', 'w'), indent=1)
print("claimed", len(checks), "not_applicable", len(na))
